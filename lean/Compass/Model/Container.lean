/-
`CompactOrderedHashMap<K, V>` of `routee-compass-core/src/util/compact_ordered_hash_map.rs`, in full,
representation by representation (`OneEntry … FourEntries`, `NEntries(HashMap<K, IndexedEntry<V>>)`).

`std::collections::HashMap` is modelled as an association list with unique keys (`HMap`).  Its
iteration order is unspecified, so the list order carries no meaning: every accessor of the Rust file
that walks the `HashMap` is modelled exactly as the code does it —

* `keys`, `into_iter` sort by the stored index (`sorted_by_key`, a stable sort) ⇒ `sortByIndex`;
* `get_pair` uses `iter().find(index == i)` without sorting ⇒ `List.find?`; the answer does not depend
  on the list order because stored indices are pairwise distinct in every reachable container
  (`Proofs/Container.lean`, `C11.hashmap_order_unobservable`);
* `iter`, `indexed_iter`, `to_vec` are `get_pair 0, get_pair 1, …` until `index ≥ len` or `None`;
* `len`, `get`, `get_index`, `contains_key`, `insert` use `HashMap::{len,get,insert}` only.

No imports beyond core (links into the driver).
-/
namespace Compass

/-- `IndexedEntry<V>` -/
structure IndexedEntry (V : Type) where
  v : V
  index : Nat
  deriving Repr, DecidableEq

/-- `HashMap<K, W>`: association list, keys pairwise distinct, order without meaning -/
abbrev HMap (K W : Type) := List (K × W)

namespace HMap
variable {K W : Type} [DecidableEq K]

/-- `HashMap::get` -/
def get : HMap K W → K → Option W
  | [], _ => none
  | (k', w) :: r, k => if k' = k then some w else get r k

/-- the map after `HashMap::insert(k, w)` (the value returned by the call is `get m k`) -/
def put : HMap K W → K → W → HMap K W
  | [], k, w => [(k, w)]
  | (k', w') :: r, k, w => if k' = k then (k', w) :: r else (k', w') :: put r k w

/-- `iter.collect::<HashMap<_,_>>()` / `HashMap::from([...])`: insert one after the other, later wins -/
def ofList (l : List (K × W)) : HMap K W :=
  l.foldl (fun m e => put m e.1 e.2) []

end HMap

/-- insert `e` into a list sorted by index, before the first element with an index `≥` (stable) -/
def insertByIndex {K V : Type} (e : K × IndexedEntry V) : List (K × IndexedEntry V) → List (K × IndexedEntry V)
  | [] => [e]
  | y :: r => if e.2.index ≤ y.2.index then e :: y :: r else y :: insertByIndex e r

/-- `sorted_by_key(|(_, v)| v.index)`: stable sort by stored index -/
def sortByIndex {K V : Type} (l : List (K × IndexedEntry V)) : List (K × IndexedEntry V) :=
  l.foldr insertByIndex []

/-- the five representations -/
inductive Container (K V : Type) where
  | one (k1 : K) (v1 : V)
  | two (k1 k2 : K) (v1 v2 : V)
  | three (k1 k2 k3 : K) (v1 v2 v3 : V)
  | four (k1 k2 k3 k4 : K) (v1 v2 v3 v4 : V)
  | n (m : HMap K (IndexedEntry V))
  deriving Repr

namespace Container
variable {K V : Type} [DecidableEq K]

/-- `CompactOrderedHashMap::empty` -/
def empty : Container K V := .n []

/-- drop every key that occurs again later -/
def dedupKeys : List K → List K
  | [] => []
  | k :: r => if k ∈ r then dedupKeys r else k :: dedupKeys r

/-- `unique_key_len`: size of the `HashSet` of the keys -/
def uniqueKeyLen (ks : List K) : Nat := (dedupKeys ks).length

/-- `len` -/
def len : Container K V → Nat
  | .one .. => 1
  | .two .. => 2
  | .three .. => 3
  | .four .. => 4
  | .n m => m.length

/-- `is_empty` -/
def isEmpty (c : Container K V) : Bool := c.len == 0

/-- `get` -/
def get (c : Container K V) (k : K) : Option V :=
  match c with
  | .one k1 v1 => if k1 = k then some v1 else none
  | .two k1 k2 v1 v2 => if k1 = k then some v1 else if k2 = k then some v2 else none
  | .three k1 k2 k3 v1 v2 v3 =>
    if k1 = k then some v1 else if k2 = k then some v2 else if k3 = k then some v3 else none
  | .four k1 k2 k3 k4 v1 v2 v3 v4 =>
    if k1 = k then some v1 else if k2 = k then some v2 else if k3 = k then some v3
    else if k4 = k then some v4 else none
  | .n m => (HMap.get m k).map (·.v)

/-- `contains_key` -/
def containsKey (c : Container K V) (k : K) : Bool := (c.get k).isSome

/-- `keys` (the `NEntries` arm sorts by stored index) -/
def keys : Container K V → List K
  | .one k1 _ => [k1]
  | .two k1 k2 _ _ => [k1, k2]
  | .three k1 k2 k3 _ _ _ => [k1, k2, k3]
  | .four k1 k2 k3 k4 _ _ _ _ => [k1, k2, k3, k4]
  | .n m => (sortByIndex m).map (·.1)

/-- `get_index` -/
def getIndex (c : Container K V) (k : K) : Option Nat :=
  match c with
  | .one k1 _ => if k = k1 then some 0 else none
  | .two k1 k2 _ _ => if k = k1 then some 0 else if k = k2 then some 1 else none
  | .three k1 k2 k3 _ _ _ =>
    if k = k1 then some 0 else if k = k2 then some 1 else if k = k3 then some 2 else none
  | .four k1 k2 k3 k4 _ _ _ _ =>
    if k = k1 then some 0 else if k = k2 then some 1 else if k = k3 then some 2
    else if k = k4 then some 3 else none
  | .n m => (HMap.get m k).map (·.index)

/-- `get_pair`.  In the `NEntries` arm the guard is `index > len` (not `≥`) and the lookup is an
    unsorted `find` over the `HashMap` -/
def getPair (c : Container K V) (index : Nat) : Option (K × V) :=
  match c with
  | .one k1 v1 => if index = 0 then some (k1, v1) else none
  | .two k1 k2 v1 v2 =>
    if index = 0 then some (k1, v1) else if index = 1 then some (k2, v2) else none
  | .three k1 k2 k3 v1 v2 v3 =>
    if index = 0 then some (k1, v1) else if index = 1 then some (k2, v2)
    else if index = 2 then some (k3, v3) else none
  | .four k1 k2 k3 k4 v1 v2 v3 v4 =>
    if index = 0 then some (k1, v1) else if index = 1 then some (k2, v2)
    else if index = 2 then some (k3, v3) else if index = 3 then some (k4, v4) else none
  | .n m =>
    if index > m.length then none
    else (m.find? (fun e => e.2.index = index)).map (fun e => (e.1, e.2.v))

/-- `insert`: the new container and the previous value stored at the key -/
def insert (c : Container K V) (k : K) (v : V) : Container K V × Option V :=
  match c with
  | .n [] => (.one k v, none)
  | .one k1 v1 =>
    if k1 = k then (.one k1 v, some v1) else (.two k1 k v1 v, none)
  | .two k1 k2 v1 v2 =>
    if k1 = k then (.two k1 k2 v v2, some v1)
    else if k2 = k then (.two k1 k2 v1 v, some v2)
    else (.three k1 k2 k v1 v2 v, none)
  | .three k1 k2 k3 v1 v2 v3 =>
    if k1 = k then (.three k1 k2 k3 v v2 v3, some v1)
    else if k2 = k then (.three k1 k2 k3 v1 v v3, some v2)
    else if k3 = k then (.three k1 k2 k3 v1 v2 v, some v3)
    else (.four k1 k2 k3 k v1 v2 v3 v, none)
  | .four k1 k2 k3 k4 v1 v2 v3 v4 =>
    if k1 = k then (.four k1 k2 k3 k4 v v2 v3 v4, some v1)
    else if k2 = k then (.four k1 k2 k3 k4 v1 v v3 v4, some v2)
    else if k3 = k then (.four k1 k2 k3 k4 v1 v2 v v4, some v3)
    else if k4 = k then (.four k1 k2 k3 k4 v1 v2 v3 v, some v4)
    else
      (.n (HMap.ofList [(k1, ⟨v1, 0⟩), (k2, ⟨v2, 1⟩), (k3, ⟨v3, 2⟩), (k4, ⟨v4, 3⟩), (k, ⟨v, 4⟩)]), none)
  | .n (e :: r) =>
    let m := e :: r
    -- `map.get(&k).map(|e| e.index).unwrap_or(map.len())`
    let index := ((HMap.get m k).map (·.index)).getD m.length
    (.n (HMap.put m k ⟨v, index⟩), (HMap.get m k).map (·.v))

/-- `CompactOrderedHashMapIter::next`, unrolled: `fuel` bounds the number of items by `len`, which is
    exactly the first stop condition of the code (`index ≥ len`) since `index` grows by one per item -/
def iterFrom (c : Container K V) : Nat → Nat → List (K × V)
  | 0, _ => []
  | fuel + 1, i =>
    if i ≥ c.len then []
    else match c.getPair i with
      | some p => p :: iterFrom c fuel (i + 1)
      | none => []

/-- `iter` -/
def iter (c : Container K V) : List (K × V) := iterFrom c c.len 0

/-- `indexed_iter` = `iter().enumerate()` -/
def indexedIter (c : Container K V) : List (Nat × (K × V)) :=
  c.iter.zipIdx.map (fun p => (p.2, p.1))

/-- `to_vec` = `iter().enumerate()` re-wrapped as `(k, IndexedEntry { index: idx, v })` -/
def toVec (c : Container K V) : List (K × IndexedEntry V) :=
  c.iter.zipIdx.map (fun p => (p.1.1, { v := p.1.2, index := p.2 }))

/-- `IntoIterator::into_iter` (the `NEntries` arm sorts by stored index and keeps the stored index) -/
def intoIter : Container K V → List (K × IndexedEntry V)
  | .one k1 v1 => [(k1, ⟨v1, 0⟩)]
  | .two k1 k2 v1 v2 => [(k1, ⟨v1, 0⟩), (k2, ⟨v2, 1⟩)]
  | .three k1 k2 k3 v1 v2 v3 => [(k1, ⟨v1, 0⟩), (k2, ⟨v2, 1⟩), (k3, ⟨v3, 2⟩)]
  | .four k1 k2 k3 k4 v1 v2 v3 v4 => [(k1, ⟨v1, 0⟩), (k2, ⟨v2, 1⟩), (k3, ⟨v3, 2⟩), (k4, ⟨v4, 3⟩)]
  | .n m => sortByIndex m

/-- `FromIterator::from_iter`: `empty` then `insert` one after the other -/
def fromIter (entries : List (K × V)) : Container K V :=
  entries.foldl (fun c e => (c.insert e.1 e.2).1) empty

/-- `CompactOrderedHashMap::new` (also `From<Vec<(K, V)>>`): zero to four entries with pairwise
    distinct keys build the small representation directly; everything else (five or more entries, or a
    repeated key among fewer) starts from `empty` and inserts one by one, exactly like `from_iter` -/
def new (entries : List (K × V)) : Container K V :=
  match entries with
  | [] => empty
  | [(k, v)] => .one k v
  | [(k1, v1), (k2, v2)] =>
    if uniqueKeyLen [k1, k2] = 2 then .two k1 k2 v1 v2 else fromIter entries
  | [(k1, v1), (k2, v2), (k3, v3)] =>
    if uniqueKeyLen [k1, k2, k3] = 3 then .three k1 k2 k3 v1 v2 v3 else fromIter entries
  | [(k1, v1), (k2, v2), (k3, v3), (k4, v4)] =>
    if uniqueKeyLen [k1, k2, k3, k4] = 4 then .four k1 k2 k3 k4 v1 v2 v3 v4 else fromIter entries
  | _ :: _ :: _ :: _ :: _ :: _ => fromIter entries

end Container

end Compass
