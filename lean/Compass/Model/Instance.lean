/-
Concrete search instances: builds the abstract `Inst` of `Model/Search.lean` from a configuration
through the component models, mirroring

* `EdgeTraversal::forward_traversal / reverse_traversal` (`algorithm/search/edge_traversal.rs`)
* `StateModel::{add_distance, add_time}` (`model/state/state_model.rs`; minimal state layer)
* `DistanceTraversalModel`, `SpeedTraversalModel` (`model/traversal/default`)
* `TurnDelayAccessModel`, `EdgeHeading::bearing_to_destination`, `Turn::from_angle`
* `CostModel` (`Model/Cost.lean`), `SearchInstance::estimate_traversal_cost`
* the frontier models: road class, turn restriction, vehicle restriction, combined, edge cut
* `TerminationModel::{test, terminate_search}` with the clock as a function of the iteration
* `Direction::{get_incident_edges, tree_key_vertex_id, terminal_vertex_id, perform_edge_traversal}`

Great-circle distances are data (`gc`, metres to the target per vertex), computed by the real
haversine code in the harness.  No Mathlib imports.
-/
import Compass.Model.Search
import Compass.Model.Units
import Compass.Model.Cost
import Compass.Gen.Consts

namespace Compass

/-- `Edge` (edge id = position in the list) -/
structure EdgeRec (α : Type) where
  src : Nat
  dst : Nat
  dist : α

inductive FeatKind where
  | dist (u : DistanceUnit)
  | time (u : TimeUnit)
  | other

/-- one `StateFeature` with its name and initial value -/
structure Feat (α : Type) where
  name : String
  kind : FeatKind
  init : α

inductive TravModel (α : Type) where
  /-- `DistanceTraversalModel { distance_unit }` -/
  | distance (du : DistanceUnit)
  /-- `SpeedTraversalModel` over `SpeedTraversalEngine { speed_table, speed_unit, time_unit, distance_unit, max_speed }` -/
  | speed (su : SpeedUnit) (du : DistanceUnit) (tu : TimeUnit) (maxSpeed : α) (table : List α)

inductive AccessModel (α : Type) where
  /-- `NoAccessModel` -/
  | noAccess
  /-- `TurnDelayAccessModel`: headings (arrival, optional departure) per edge id; delay per `Turn` (by `Turn.toNat`) -/
  | turnDelay (tu : TimeUnit) (headings : List (Int × Option Int)) (delays : List (Option α))

/-- `VehicleRestriction` with the vehicle dimension it limits: 0 total weight, 1 weight per axle,
2 length, 3 width, 4 height, 5 trailer length -/
inductive Restriction (α : Type) where
  | weight (perAxle : Bool) (limit : α) (unit : WeightUnit)
  | length (which : Nat) (limit : α) (unit : DistanceUnit)

/-- `VehicleParameters` -/
structure VehicleParams (α : Type) where
  height : α × DistanceUnit
  width : α × DistanceUnit
  totalLength : α × DistanceUnit
  trailerLength : α × DistanceUnit
  totalWeight : α × WeightUnit
  /-- `number_of_axles as f64` -/
  axles : α

inductive FrontierM (α : Type) where
  /-- `RoadClassFrontierModel { road_class_lookup, road_classes }` -/
  | roadClass (allowed : Option (List Nat)) (table : List Nat)
  /-- `TurnRestrictionFrontierModel`: (prev_edge_id, next_edge_id) pairs -/
  | turnRestriction (pairs : List (Nat × Nat))
  /-- `VehicleRestrictionFrontierModel`: per-edge restriction lists (missing edge = no restriction) -/
  | vehicle (table : List (Nat × List (Restriction α))) (params : VehicleParams α)
  /-- `EdgeCutFrontierModel` (its underlying model is the rest of the list) -/
  | edgeCut (cut : List Nat)

/-- `TerminationModel`; the clock of `QueryRuntimeLimit` is `base + per * iteration` nanoseconds -/
inductive TermM where
  | runtime (limitNs freq baseNs perNs : Nat)
  | size (limit : Nat)
  | iters (limit : Nat)
  | combined (ms : List TermM)

structure Config (α : Type) where
  nV : Nat
  edges : List (EdgeRec α)
  /-- `out_edges_iter` / `in_edges_iter` order per vertex -/
  outAdj : List (List Nat)
  inAdj : List (List Nat)
  feats : List (Feat α)
  trav : TravModel α
  access : AccessModel α
  cost : CostModel α
  frontier : List (FrontierM α)
  term : TermM
  /-- `Direction::Reverse` -/
  reverse : Bool
  /-- haversine metres from each vertex to the target (empty without target); a negative entry
  stands for "the haversine function returned `Err`" (coordinates out of range), see `estimate` -/
  gc : List α
  /-- `weight_factor`; `none` is read as `Cost::ONE` -/
  wf : Option α

section
variable {α : Type} [Add α] [Sub α] [Mul α] [Div α] [LT α] [LE α] [DecidableLT α] [DecidableLE α]
  [BEq α] [Lit α]

/-! ### minimal state layer -/

def featIndex (fs : List (Feat α)) (name : String) : Option Nat :=
  fs.findIdx? (fun f => f.name == name)

/-- `StateModel::initial_state` -/
def initialState (fs : List (Feat α)) : List α := fs.map (·.init)

/-- `StateModel::add_distance(state, name, d, from_unit)`: the delta is converted to the feature's unit
and added to the slot -/
def addDistance (fs : List (Feat α)) (state : List α) (name : String) (d : α) (fromU : DistanceUnit) :
    Option (List α) :=
  match featIndex fs name with
  | none => none
  | some i =>
    match state[i]?, fs[i]? with
    | some x, some f =>
      match f.kind with
      | .dist fu => some (state.set i (x + fromU.convert fu d))
      | _ => none
    | _, _ => none

/-- `StateModel::add_time` -/
def addTime (fs : List (Feat α)) (state : List α) (name : String) (t : α) (fromU : TimeUnit) :
    Option (List α) :=
  match featIndex fs name with
  | none => none
  | some i =>
    match state[i]?, fs[i]? with
    | some x, some f =>
      match f.kind with
      | .time fu => some (state.set i (x + fromU.convert fu t))
      | _ => none
    | _, _ => none

/-! ### traversal models -/

/-- `TraversalModel::traverse_edge` for the edge with id `e` -/
def TravModel.traverse (m : TravModel α) (fs : List (Feat α)) (edges : List (EdgeRec α)) (e : Nat)
    (state : List α) : Option (List α) :=
  match edges[e]? with
  | none => none
  | some er =>
    match m with
    | .distance du =>
      let d := baseDistanceUnit.convert du er.dist
      addDistance fs state "distance" d du
    | .speed su du tu _ table =>
      let d := baseDistanceUnit.convert du er.dist
      match table[e]? with
      | none => none
      | some sp =>
        match createTime sp su d du tu with
        | none => none
        | some t =>
          match addTime fs state "time" t tu with
          | none => none
          | some st1 => addDistance fs st1 "distance" d du

/-- `TraversalModel::estimate_traversal` given the great-circle distance in metres -/
def TravModel.estimate (m : TravModel α) (fs : List (Feat α)) (gcMeters : α) (state : List α) :
    Option (List α) :=
  match m with
  | .distance du =>
    let d := DistanceUnit.meters.convert du gcMeters
    addDistance fs state "distance" d du
  | .speed su du tu maxSpeed _ =>
    let d := DistanceUnit.meters.convert du gcMeters
    if d == (zero : α) then some state
    else
      match createTime maxSpeed su d du tu with
      | none => none
      | some t =>
        match addTime fs state "time" t tu with
        | none => none
        | some st1 => addDistance fs st1 "distance" d du

/-! ### turn delays -/

/-- `EdgeHeading::bearing_to_destination`: the difference of the two headings (any `i16`; the code
subtracts in `i32`, where it cannot overflow — /repo a90456f — modelled on `Int`) wrapped once by
±360.  The code's final `wrapped.clamp(i16::MIN, i16::MAX) as i16` is NOT modelled: the only consumer
is `Turn::from_angle`, and the clamp never changes the classification —
`C03.turnOfAngle_clamp : turnOfAngle (clampI16 a) = turnOfAngle a` (an angle the clamp moves lies
outside [-180, 180] before and after, where every angle is refused); as a number the model's bearing
can differ from the code's return value (65175 vs 32767 for headings −32768 and 32767). -/
def bearing (src dst : Int × Option Int) : Int :=
  let endH := match src.2 with | some d => d | none => src.1
  let angle := dst.1 - endH
  if angle > headingWrap.1 then angle - headingWrap.2.1
  else if angle < -headingWrap.2.2.1 then angle + headingWrap.2.2.2
  else angle

/-- `Turn::from_angle`: first matching range, `none` = the `Err` arm -/
def turnOfAngle (angle : Int) : Option Turn :=
  match turnRanges.find? (fun r => decide (r.1 ≤ angle) && decide (angle ≤ r.2.1)) with
  | some r => some r.2.2
  | none => none

/-- `TurnDelayAccessModelEngine::get_delay` for the pair (prev edge, next edge) -/
def turnDelayOf (headings : List (Int × Option Int)) (delays : List (Option α)) (pe ne : Nat) : Option α :=
  match headings[pe]?, headings[ne]? with
  | some hs, some hd =>
    match turnOfAngle (bearing hs hd) with
    | none => none
    | some t =>
      match delays[t.toNat]? with
      | some (some d) => some d
      | _ => none
  | _, _ => none

/-- `AccessModel::access_edge` for (v1)-[pe]->(v2)-[ne]->(v3) -/
def AccessModel.access (m : AccessModel α) (fs : List (Feat α)) (pe ne : Nat) (state : List α) :
    Option (List α) :=
  match m with
  | .noAccess => some state
  | .turnDelay tu headings delays =>
    match turnDelayOf headings delays pe ne with
    | Option.none => Option.none
    | Option.some d => addTime fs state "time" d tu

/-! ### frontier models -/

/-- `weight / number_of_axles as f64 <= limit`.  `VehicleParameters::from_query` accepts 0 axles; the
f64 quotient is then +∞ for a positive weight (below no finite limit: the edge is refused), −∞ for a
negative weight (below every limit that is a number) and NaN for weight zero (every comparison with
it is false).  Written out so that the verdict is the code's in every number type — not the
`x / 0 = 0` of a field.  (`limit + limit ≤ limit` for a positive `limit` says "`limit` is +∞",
`limit ≤ limit` says "`limit` is not NaN"; both are what they look like in a field.) -/
def perAxleOk (w axles limit : α) : Bool :=
  if axles == zero then
    if zero < w then decide (zero < limit) && decide (limit + limit ≤ limit)
    else if w < zero then decide (limit ≤ limit)
    else false
  else decide (w / axles ≤ limit)

/-- `VehicleRestriction::valid` -/
def Restriction.valid (r : Restriction α) (p : VehicleParams α) : Bool :=
  match r with
  | .weight perAxle limit unit =>
    let w := p.totalWeight.2.convert unit p.totalWeight.1
    if perAxle then perAxleOk w p.axles limit else decide (w ≤ limit)
  | .length which limit unit =>
    let dim := match which with
      | 2 => p.totalLength
      | 3 => p.width
      | 4 => p.height
      | _ => p.trailerLength
    decide (dim.2.convert unit dim.1 ≤ limit)

/-- one frontier model's `valid_frontier(edge, state, previous_edge)`; `none` is its `Err` -/
def FrontierM.valid (m : FrontierM α) (e : Nat) (prev : Option Nat) : Option Bool :=
  match m with
  | .roadClass allowed table =>
    match allowed with
    | none => some true
    | some cls =>
      match table[e]? with
      | none => none
      | some c => some (cls.contains c)
  | .turnRestriction pairs =>
    match prev with
    | none => some true
    | some p => some (!(pairs.any (fun q => q.1 == p && q.2 == e)))
  | .vehicle table params =>
    match table.find? (fun r => r.1 == e) with
    | none => some true
    | some r => some (r.2.all (fun x => x.valid params))
  | .edgeCut cut => some (!(cut.contains e))

/-- `CombinedFrontierModel` / nested `EdgeCutFrontierModel`: first `false` or error wins -/
def frontierValid : List (FrontierM α) → Nat → Option Nat → Except ErrKind Bool
  | [], _, _ => .ok true
  | m :: ms, e, prev =>
    match m.valid e prev with
    | none => .error .frontier
    | some false => .ok false
    | some true => frontierValid ms e prev

/-! ### termination -/

/-- `TerminationModel::terminate_search`; `none` is the division-by-zero panic of `iteration % 0` -/
def TermM.fires : TermM → Nat → Nat → Option Bool
  | .runtime limitNs freq baseNs perNs, _, it =>
    if freq = 0 then none
    else if it % freq = 0 then some (decide (baseNs + perNs * it > limitNs)) else some false
  | .size limit, sz, _ => some (decide (sz > limit))
  | .iters limit, _, it => some (decide (it + 1 > limit))
  | .combined ms, sz, it => firesList ms sz it false
where
  firesList : List TermM → Nat → Nat → Bool → Option Bool
    | [], _, _, acc => some acc
    | m :: ms, sz, it, acc =>
      match m.fires sz it with
      | none => none
      | some r => firesList ms sz it (acc || r)

/-- the limits named by `explain_termination`, in model order -/
def TermM.explain : TermM → Nat → Nat → List TermKind
  | .runtime limitNs freq baseNs perNs, sz, it =>
    if (TermM.runtime limitNs freq baseNs perNs).fires sz it = some true then [.runtime] else []
  | .size limit, sz, it => if (TermM.size limit).fires sz it = some true then [.size] else []
  | .iters limit, sz, it => if (TermM.iters limit).fires sz it = some true then [.iterations] else []
  | .combined ms, sz, it => explainList ms sz it
where
  explainList : List TermM → Nat → Nat → List TermKind
    | [], _, _ => []
    | m :: ms, sz, it => m.explain sz it ++ explainList ms sz it

/-- `TerminationModel::test` -/
def TermM.test (m : TermM) (size it : Nat) : Except ErrKind Unit :=
  match m.fires size it with
  | none => .error (.panic "termination-frequency-zero")
  | some false => .ok ()
  | some true =>
    match m.explain size it with
    | [] => .error .internal      -- "unable to explain termination" (RuntimeError)
    | ks => .error (.terminated ks)

/-! ### edge traversal and the instance -/

/-- the access part of `EdgeTraversal::forward_traversal / reverse_traversal`: with a previous edge
`last`, apply the access model for the pair and charge `CostModel::access_cost`; the pair is
(last, e) in a forward search and (e, last) in a reverse search -/
def edgeAccess (c : Config α) (e : Nat) (last : Option Nat) (prevState : List α) :
    Except ErrKind (α × List α) :=
  match last with
  | none => .ok (zero, prevState)
  | some l =>
    match c.edges[l]? with
    | none => .error .network
    | some _ =>
      let pe := if c.reverse then e else l
      let ne := if c.reverse then l else e
      match c.access.access c.feats pe ne prevState with
      | none => .error .access
      | some st1 =>
        match c.cost.accessCost pe ne prevState st1 with
        | none => .error .cost
        | some ac => .ok ((zero : α) + ac, st1)

/-- `EdgeTraversal::forward_traversal(next = e, prev = last)` and, in a reverse search,
`reverse_traversal(prev = e, next = last)` ↦ (access_cost, traversal_cost = total − access, state) -/
def edgeTraversal (c : Config α) (e : Nat) (last : Option Nat) (prevState : List α) :
    Except ErrKind (α × α × List α) :=
  match c.edges[e]? with
  | none => .error .network
  | some _ =>
    match edgeAccess c e last prevState with
    | .error k => .error k
    | .ok (ac, st1) =>
      match c.trav.traverse c.feats c.edges e st1 with
      | none => .error .traversal
      | some st2 =>
        match c.cost.traversalCost e prevState st2 with
        | none => .error .cost
        | some total => .ok (ac, total - ac, st2)

/-- `SearchInstance::estimate_traversal_cost(v, target, state) * weight_factor`.

A **negative** table entry is the marker "no great-circle value": `haversine_distance_meters` returned
`Err` for the pair (`v`, target) — a coordinate of either vertex outside [-180, 180] × [-90, 90], or
NaN.  Both traversal models turn that into a `TraversalModelFailure` before they do anything else, and
`run_a_star` asks for the estimate of every vertex it labels whatever the weight factor, so such a
vertex fails the query even for Dijkstra.  (A great-circle distance itself is never negative: the
formula is `R · 2 · asin √a` with `a ≥ 0`, a number `≥ 0` or NaN.) -/
def estimate (c : Config α) (v : Nat) (state : List α) : Except ErrKind α :=
  match c.gc[v]? with
  | none => .error .network
  | some gcm =>
    if gcm < zero then .error .traversal
    else
      match c.trav.estimate c.feats gcm state with
      | none => .error .traversal
      | some dst =>
        match c.cost.costEstimate state dst with
        | none => .error .cost
        | some est => .ok (est * (match c.wf with | some w => w | none => one))

/-- the abstract instance of a configuration -/
def Config.inst (c : Config α) : Inst α where
  incident := fun v => (if c.reverse then c.inAdj else c.outAdj).getD v []
  keyV := fun e => match c.edges[e]? with
    | some er => if c.reverse then er.src else er.dst
    | none => 0
  termV := fun e => match c.edges[e]? with
    | some er => if c.reverse then er.dst else er.src
    | none => 0
  init := initialState c.feats
  valid := fun e _ last =>
    match c.edges[e]? with
    | none => .error .network
    | some _ => frontierValid c.frontier e last
  trav := fun e last st => edgeTraversal c e last st
  h := fun v st => estimate c v st
  term := fun size it => c.term.test size it

/-- `SearchAlgorithmResult` for Dijkstra / A*: trees as (size, lookup), routes, iterations -/
structure AlgResult (α : Type) where
  trees : List (Nat → Option (Branch α))
  routes : List (List (Branch α))
  iterations : Nat

/-- `SearchAlgorithm::{Dijkstra, AStarAlgorithm}::run_vertex_oriented` on a configuration -/
def Config.runVertex (c : Config α) (source : Nat) (target : Option Nat) (sched : List Nat) :
    Except ErrKind (AlgResult α) :=
  match runVertexOriented c.inst source target sched with
  | .error k => .error k
  | .ok r => .ok { trees := [r.final.sol], routes := (match r.route with | some x => [x] | none => []),
                   iterations := r.final.iters }

/-- `search_algorithm::run_edge_oriented` (the common wrapper, used by every algorithm).  Origin and
destination are edge ids; the vertex-oriented search runs from the origin edge's head to the
destination edge's tail; `src_vertex_id` / `dst_vertex_id` are taken in graph orientation whatever
the direction, and the adjacent-edges case always uses `forward_traversal`. -/
def Config.runEdge (c : Config α) (source : Nat) (target : Option Nat) (sched : List Nat) :
    Except ErrKind (AlgResult α) :=
  match c.edges[source]? with
  | none => .error .network
  | some e1 =>
    let srcEt : Branch α := { terminal := e1.src, edge := source, access := zero, traversal := zero,
                              state := initialState c.feats }
    match target with
    | none =>
      match c.runVertex e1.dst none sched with
      | .error k => .error k
      | .ok r =>
        .ok { trees := r.trees.map (fun t => match t e1.dst with
                                            | some _ => t
                                            | none => upd t e1.dst srcEt),
              routes := r.routes.map (fun rt => srcEt :: rt),
              iterations := r.iterations + 1 }
    | some tgt =>
      match c.edges[tgt]? with
      | none => .error .network
      | some e2 =>
        if source = tgt then .ok { trees := [], routes := [], iterations := 0 }
        else if e1.dst = e2.src then
          let fwd : Config α := { c with reverse := false }
          match edgeTraversal fwd source none (initialState c.feats) with
          | .error k => .error k
          | .ok (ac1, tc1, st1) =>
            match edgeTraversal fwd tgt (some source) st1 with
            | .error k => .error k
            | .ok (ac2, tc2, st2) =>
              let b1 : Branch α := { terminal := e1.src, edge := source, access := ac1, traversal := tc1, state := st1 }
              let b2 : Branch α := { terminal := e2.src, edge := tgt, access := ac2, traversal := tc2, state := st2 }
              -- `HashMap::from([(e2_dst, ..), (e1_dst, ..)])`: the later pair wins on equal keys
              .ok { trees := [upd (upd (fun _ => none) e2.dst b2) e1.dst b1], routes := [[b1, b2]],
                    iterations := 1 }
        else
          match c.runVertex e1.dst (some e2.src) sched with
          | .error k => .error k
          | .ok r =>
            if r.trees.isEmpty then .error .noPath
            else
              let fix : List (Branch α) → Except ErrKind (List (Branch α)) := fun rt =>
                match rt.getLast? with
                | none => .error .internal
                | some last =>
                  let dstEt : Branch α := { terminal := e2.src, edge := tgt, access := zero,
                                            traversal := zero, state := last.state }
                  .ok (srcEt :: rt ++ [dstEt])
              let rec fixAll : List (List (Branch α)) → Except ErrKind (List (List (Branch α)))
                | [] => .ok []
                | rt :: rest =>
                  match fix rt, fixAll rest with
                  | .ok a, .ok b => .ok (a :: b)
                  | .error k, _ => .error k
                  | _, .error k => .error k
              match fixAll r.routes with
              | .error k => .error k
              | .ok routes => .ok { trees := r.trees, routes := routes, iterations := r.iterations + 2 }

/-! ### `a_star_algorithm::run_a_star_edge_oriented` + `backtrack::edge_oriented_route`

The edge-oriented wrapper inside `a_star_algorithm.rs`.  `SearchAlgorithm` has not called it since the
repair of the edge-oriented route (its vertex-keyed tree cannot hold a route that passes the
destination edge's head, or the origin edge's tail, before the end); it is still public. -/

/-- `run_a_star_edge_oriented` ↦ (tree, number of tree entries, iterations) -/
def Config.runAStarEdge (c : Config α) (source : Nat) (target : Option Nat) (sched : List Nat) :
    Except ErrKind ((Nat → Option (Branch α)) × Nat) :=
  match c.edges[source]? with
  | none => .error .network
  | some e1 =>
    let srcBr : Branch α := { terminal := e1.src, edge := source, access := zero, traversal := zero,
                              state := initialState c.feats }
    match target with
    | none =>
      match runAStar c.inst e1.dst none sched with
      | .error k => .error k
      | .ok s =>
        .ok ((match s.sol e1.dst with | some _ => s.sol | none => upd s.sol e1.dst srcBr), s.iters + 1)
    | some tgt =>
      match c.edges[tgt]? with
      | none => .error .network
      | some e2 =>
        if source = tgt then .ok (fun _ => none, 0)
        else if e1.dst = e2.src then
          let fwd : Config α := { c with reverse := false }
          match edgeTraversal fwd source none (initialState c.feats) with
          | .error k => .error k
          | .ok (ac1, tc1, st1) =>
            match edgeTraversal fwd tgt (some source) st1 with
            | .error k => .error k
            | .ok (ac2, tc2, st2) =>
              let b1 : Branch α := { terminal := e1.src, edge := source, access := ac1, traversal := tc1, state := st1 }
              let b2 : Branch α := { terminal := e2.src, edge := tgt, access := ac2, traversal := tc2, state := st2 }
              .ok (upd (upd (fun _ => none) e2.dst b2) e1.dst b1, 1)
        else
          match runAStar c.inst e1.dst (some e2.src) sched with
          | .error k => .error k
          | .ok s =>
            if s.solSize = 0 then .error .noPath
            else
              match s.sol e2.src with
              | none => .error .internal
              | some fin =>
                let dstBr : Branch α := { terminal := e2.src, edge := tgt, access := zero, traversal := zero,
                                          state := fin.state }
                let t1 := match s.sol e1.dst with | some _ => s.sol | none => upd s.sol e1.dst srcBr
                let t2 := match t1 e2.dst with | some _ => t1 | none => upd t1 e2.dst dstBr
                .ok (t2, s.iters + 2)

/-- `backtrack::edge_oriented_route(source, target, tree, graph)`: from the destination edge's head
back to the origin edge's tail (`fuel`: more than the number of tree entries) -/
def Config.edgeOrientedRoute (c : Config α) (source target : Nat) (tree : Nat → Option (Branch α)) (fuel : Nat) :
    Except ErrKind (List (Branch α)) :=
  match c.edges[source]?, c.edges[target]? with
  | some e1, some e2 => backtrack e1.src e2.dst tree fuel
  | _, _ => .error .network

end

end Compass
