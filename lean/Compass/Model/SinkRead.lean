/-
The reading side of a newline-delimited JSON output file: a small JSON reader for one record (compact
JSON: the six value forms, every string escape `serde_json` can write plus `\/` and general `\uXXXX` below
the surrogate range; no insignificant white space — the sink never writes any).  It exists so that "each
JSON record parses back to the response that produced it" is a theorem about a concrete serializer/reader
pair (`Sink.compact` / `SinkRead.parse`) instead of an assumption.

A number is read as its lexeme (the double behind it is a function of the lexeme, so the reader returns
the bits as `0`; `eraseBits` is the corresponding normal form).  Imports only Model files.
-/
import Compass.Model.Sink

namespace Compass
namespace SinkRead
open Sink

def hexVal (c : Char) : Option Nat :=
  if '0' ≤ c ∧ c ≤ '9' then some (c.toNat - 48)
  else if 'a' ≤ c ∧ c ≤ 'f' then some (c.toNat - 87)
  else if 'A' ≤ c ∧ c ≤ 'F' then some (c.toNat - 55)
  else none

/-- the character a one-letter escape stands for -/
def unescape1 (e : Char) : Option Char :=
  if e = '"' then some '"' else if e = '\\' then some '\\' else if e = '/' then some '/'
  else if e = 'b' then some (Char.ofNat 8) else if e = 'f' then some (Char.ofNat 12)
  else if e = 'n' then some '\n' else if e = 'r' then some '\r' else if e = 't' then some '\t'
  else none

/-- the inside of a string literal, after the opening quote: the characters and what follows the closing quote -/
def parseStrBody : List Char → Option (List Char × List Char)
  | [] => none
  | c :: rest =>
    if c = '"' then some ([], rest)
    else if c = '\\' then
      match rest with
      | [] => none
      | e :: rest' =>
        if e = 'u' then
          match rest' with
          | a :: b :: c' :: d :: rest'' =>
            match hexVal a, hexVal b, hexVal c', hexVal d, parseStrBody rest'' with
            | some x, some y, some z, some w, some (s, r) =>
              some (Char.ofNat (((x * 16 + y) * 16 + z) * 16 + w) :: s, r)
            | _, _, _, _, _ => none
          | _ => none
        else
          match unescape1 e, parseStrBody rest' with
          | some ch, some (s, r) => some (ch :: s, r)
          | _, _ => none
    else if c.toNat < 32 then none
    else
      match parseStrBody rest with
      | some (s, r) => some (c :: s, r)
      | none => none

/-- `some rest` when the text starts with `word` -/
def expect : List Char → List Char → Option (List Char)
  | [], t => some t
  | _ :: _, [] => none
  | w :: ws, c :: cs => if w = c then expect ws cs else none

mutual
/-- one JSON value and the text after it (`fuel` bounds the nesting and the number of elements) -/
def parseValue : Nat → List Char → Option (Json × List Char)
  | 0, _ => none
  | _ + 1, [] => none
  | fuel + 1, c :: rest =>
    if c = '"' then
      match parseStrBody rest with
      | some (s, r) => some (.str (String.ofList s), r)
      | none => none
    else if c = '[' then
      match expect [']'] rest with
      | some r => some (.arr [], r)
      | none =>
        match parseElems fuel rest with
        | some (xs, r) => some (.arr xs, r)
        | none => none
    else if c = '{' then
      match expect ['}'] rest with
      | some r => some (.obj [], r)
      | none =>
        match parseMembers fuel rest with
        | some (kvs, r) => some (.obj kvs, r)
        | none => none
    else if c = 'n' then (expect ['u', 'l', 'l'] rest).map fun r => (.null, r)
    else if c = 't' then (expect ['r', 'u', 'e'] rest).map fun r => (.bool true, r)
    else if c = 'f' then (expect ['a', 'l', 's', 'e'] rest).map fun r => (.bool false, r)
    else if isNumChar c then
      some (.num (String.ofList ((c :: rest).takeWhile isNumChar)) 0, (c :: rest).dropWhile isNumChar)
    else none
/-- `v (, v)* ]` -/
def parseElems : Nat → List Char → Option (List Json × List Char)
  | 0, _ => none
  | fuel + 1, t =>
    match parseValue fuel t with
    | none => none
    | some (x, r) =>
      match r with
      | [] => none
      | d :: r' =>
        if d = ',' then
          match parseElems fuel r' with
          | some (xs, r'') => some (x :: xs, r'')
          | none => none
        else if d = ']' then some ([x], r')
        else none
/-- `"k":v (, "k":v)* }` -/
def parseMembers : Nat → List Char → Option (List (String × Json) × List Char)
  | 0, _ => none
  | fuel + 1, t =>
    match t with
    | [] => none
    | q :: t' =>
      if q = '"' then
        match parseStrBody t' with
        | none => none
        | some (k, r0) =>
          match r0 with
          | [] => none
          | col :: r1 =>
            if col = ':' then
              match parseValue fuel r1 with
              | none => none
              | some (v, r) =>
                match r with
                | [] => none
                | d :: r' =>
                  if d = ',' then
                    match parseMembers fuel r' with
                    | some (kvs, r'') => some ((String.ofList k, v) :: kvs, r'')
                    | none => none
                  else if d = '}' then some ([(String.ofList k, v)], r')
                  else none
            else none
      else none
end

/-- read one record: the whole text must be one value -/
def parse (t : List Char) : Option Json :=
  match parseValue (t.length + 1) t with
  | some (j, []) => some j
  | _ => none

mutual
/-- the reader's normal form: numbers keep their lexeme only -/
def eraseBits : Json → Json
  | .num l _ => .num l 0
  | .arr xs => .arr (eraseBitsList xs)
  | .obj kvs => .obj (eraseBitsKvs kvs)
  | j => j
def eraseBitsList : List Json → List Json
  | [] => []
  | x :: xs => eraseBits x :: eraseBitsList xs
def eraseBitsKvs : List (String × Json) → List (String × Json)
  | [] => []
  | (k, v) :: r => (k, eraseBits v) :: eraseBitsKvs r
end

mutual
/-- how deep arrays and objects are nested (a scalar: 0, `[]`: 1, `[[1]]`: 2) -/
def depth : Json → Nat
  | .arr xs => 1 + depthList xs
  | .obj kvs => 1 + depthKvs kvs
  | _ => 0
def depthList : List Json → Nat
  | [] => 0
  | x :: xs => max (depth x) (depthList xs)
def depthKvs : List (String × Json) → Nat
  | [] => 0
  | (_, v) :: r => max (depth v) (depthKvs r)
end

/-- `serde_json`'s recursion limit: `from_str` gives up ("recursion limit exceeded") on a text whose arrays and
objects are nested 128 deep or deeper -/
def serdeDepthLimit : Nat := 127

/-- `serde_json::from_str` as a reader of one record: `parse`, refusing what is nested too deep -/
def parseSerde (t : List Char) : Option Json :=
  match parse t with
  | some j => if depth j ≤ serdeDepthLimit then some j else none
  | none => none

/-! ### the reading side of a CSV output file (RFC 4180) -/

/-- where the reader is inside a record -/
inductive Mode where
  /-- a field begins -/
  | start
  /-- inside an unquoted field -/
  | plain
  /-- inside a quoted field -/
  | quoted
  /-- inside a quoted field, right after a double quote: it closes the field unless another one follows -/
  | quoteSeen
  deriving DecidableEq, Inhabited

/-- the fields of one record (a row without its terminating newline), unescaped.  `none`: not a record — a
quoted field that never closes, or text between a closing quote and the next comma. -/
def readAux : List Char → Mode → List Char → List (List Char) → Option (List (List Char))
  | [], .quoted, _, _ => none
  | [], _, cur, acc => some ((cur.reverse :: acc).reverse)
  | c :: cs, .start, _, acc =>
    if c = '"' then readAux cs .quoted [] acc
    else if c = ',' then readAux cs .start [] ([] :: acc)
    else readAux cs .plain [c] acc
  | c :: cs, .plain, cur, acc =>
    if c = ',' then readAux cs .start [] (cur.reverse :: acc)
    else readAux cs .plain (c :: cur) acc
  | c :: cs, .quoted, cur, acc =>
    if c = '"' then readAux cs .quoteSeen cur acc
    else readAux cs .quoted (c :: cur) acc
  | c :: cs, .quoteSeen, cur, acc =>
    if c = '"' then readAux cs .quoted ('"' :: cur) acc
    else if c = ',' then readAux cs .start [] (cur.reverse :: acc)
    else none

def readRow (row : List Char) : Option (List (List Char)) := readAux row .start [] []

/-- cut a file's text into records: a newline ends a record unless it is inside a quoted field (every `"`
toggles the quoting state; `""` toggles twice).  Returns the complete records and the unterminated rest. -/
def splitRecordsAux : List Char → Bool → List Char → List (List Char) → List (List Char) × List Char
  | [], _, cur, acc => (acc.reverse, cur.reverse)
  | c :: cs, q, cur, acc =>
    if c = '"' then splitRecordsAux cs (!q) (c :: cur) acc
    else if c = '\n' ∧ q = false then splitRecordsAux cs false [] (cur.reverse :: acc)
    else splitRecordsAux cs q (c :: cur) acc

def splitRecords (t : List Char) : List (List Char) × List Char := splitRecordsAux t false [] []

end SinkRead
end Compass
