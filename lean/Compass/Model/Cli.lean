/-
Model of the command-line entry (C06, C12), on top of `Model/BatchEntry.lean`:

* `app/cli/cli_args.rs` — `CliArgs::validate`, `CliArgs::get_chunksize_option`;
* `app/cli/run.rs` — `command_line_runner` (validate, read the configuration, build the application, open the
  query file, dispatch on `(chunksize, newline_delimited)`), `run_json` (the file is ONE JSON document →
  `get_queries` → one `CompassApp::run`), `run_newline_json` (lines → `itertools::chunks(chunksize)` → per
  chunk: the lines that parse are the batch of one `CompassApp::run`, the lines that do not parse are reported
  AFTER that run; a failing `run` ends the whole call with `?`).

The batch runner (`CompassApp::run` with its per-run configuration) is a PARAMETER
`run : List Json → Outcome (Except ε ρ)`; the driver and the theorems instantiate it with `callO` of
`Model/BatchEntry.lean`.

Environment, handed in as data: whether the configuration file can be read and the application built, whether
the query file exists, what `serde_json` makes of the whole file (`doc`) and of each of its lines (`none`: the
line is not JSON, or reading it failed — invalid UTF-8).  A query "file" that can be opened but never read (a
directory: every `read` fails with `EISDIR`, and `BufRead::lines` yields that error for ever) is the explicit
file kind `unreadable`; `command_line_runner` refuses it like a missing file (fix fffeda5), so the `unreadable`
arms of `runJsonO` / `runNewlineJsonO` describe those two functions only.

What a total function cannot do is an explicit outcome: `itertools::chunks(0)` panics (`assert!(size != 0)`),
the cast `c as usize` wraps (`asUsize`), an endless line iterator `diverges`.

Imports only Model files (links into the driver).
-/
import Compass.Model.BatchEntry

namespace Compass
namespace Cli
open MultiSet (Outcome)
open Batch (chunks getQueries)

/-- `CliArgs` (the two file names are environment: see `Env`); `chunksize: Option<i64>` -/
structure CliArgs where
  chunksize : Option Int
  newlineDelimited : Bool
  deriving Repr, DecidableEq

/-- the errors `command_line_runner` returns, `ε` being the errors of `CompassApp::run` -/
inductive CliErr (ε : Type) where
  /-- `validate`: `Some(_)` chunksize without `newline_delimited` (`UserConfigurationError`) -/
  | chunksizeWithoutNewline
  /-- `validate`: `chunksize < 1` (`UserConfigurationError`) -/
  | chunksizeNotPositive
  /-- `read_config_from_file` failed (`ConfigFailure`) -/
  | configFile
  /-- `CompassApp::try_from` failed -/
  | appBuild
  /-- `File::open(query_file)` failed, or the path is a directory (`BuildFailure("Could not find query file …")`) -/
  | queryFileMissing
  /-- dispatch arm `(None, true)`: `InternalError("invalid argument combination should have been caught
  during CLI validation")` -/
  | invalidCombination
  /-- dispatch arm `(Some(_), false)`: `InternalError("not yet implemented")` -/
  | notImplemented
  /-- `get_chunksize_option`: `c <= 0` (`CompassFailure`) -/
  | chunksizeOption
  /-- `run_json`: the file is not one JSON document (`JsonError`) -/
  | notJson
  /-- `run_json`: `get_queries` refused the document (`CompassFailure`) -/
  | notABatch
  /-- an error of `CompassApp::run` -/
  | run (e : ε)
  deriving Repr, DecidableEq

/-- `CliArgs::validate` -/
def validate {ε : Type} (a : CliArgs) : Except (CliErr ε) Unit :=
  match a.chunksize, a.newlineDelimited with
  | some _, false => .error .chunksizeWithoutNewline
  | some c, _ => if c < 1 then .error .chunksizeNotPositive else .ok ()
  | _, _ => .ok ()

/-- `usize::MAX` on the 64-bit target the harness runs on -/
def usizeMax : Nat := 2 ^ 64 - 1

/-- `c as usize` for `c : i64`: two's-complement wrap to 64 bits -/
def asUsize (c : Int) : Nat := (c % (2 ^ 64 : Int)).toNat

/-- `CliArgs::get_chunksize_option` -/
def getChunksizeOption {ε : Type} (a : CliArgs) : Except (CliErr ε) (Option Nat) :=
  match a.chunksize with
  | none => .ok none
  | some c => if c > 0 then .ok (some (asUsize c)) else .error .chunksizeOption

/-- the query file as the environment presents it -/
inductive QueryFile where
  /-- `File::open` fails -/
  | missing
  /-- opens, every read fails (a directory) -/
  | unreadable
  /-- `doc`: what `serde_json::from_reader` makes of the whole file; `lines`: what `serde_json::from_str` makes
  of each line of `BufRead::lines` (`none`: not JSON — a blank line included — or the line could not be read) -/
  | content (doc : Option Json) (lines : List (Option Json))
  deriving Repr

/-- how the configuration file fares -/
inductive ConfigFile where
  /-- `read_config_from_file` fails: no such file, or not TOML -/
  | unreadable
  /-- `CompassApp::try_from` fails -/
  | unbuildable
  | good
  deriving Repr, DecidableEq

/-- what one chunk did: what its `run` returned, and how many of its lines were reported as not parsable
afterwards -/
structure ChunkLog (ρ : Type) where
  served : ρ
  parseErrors : Nat
  deriving Repr

/-- what the call did: the chunks that were run (in order), and what it returned -/
structure CliOut (ε ρ : Type) where
  log : List (ChunkLog ρ)
  result : Except (CliErr ε) Unit

/-- the batch of a chunk: its lines that parse, in order -/
def chunkBatch (c : List (Option Json)) : List Json := c.filterMap id

/-- the lines of a chunk that do not parse -/
def chunkBad (c : List (Option Json)) : Nat := (c.filter Option.isNone).length

/-- the `for` loop of `run_newline_json` over the chunks: one `run` per chunk, the first failing one ends
the call (the chunks after it are not run, and ITS unparsable lines are not reported) -/
def runChunksO {ε ρ : Type} (run : List Json → Outcome (Except ε ρ)) :
    List (List (Option Json)) → Outcome (CliOut ε ρ)
  | [] => .ok { log := [], result := .ok () }
  | c :: cs =>
    match run (chunkBatch c) with
    | .panic s => .panic s
    | .diverges => .diverges
    | .ok (.error e) => .ok { log := [], result := .error (.run e) }
    | .ok (.ok r) =>
      match runChunksO run cs with
      | .panic s => .panic s
      | .diverges => .diverges
      | .ok o => .ok { log := { served := r, parseErrors := chunkBad c } :: o.log, result := o.result }

/-- `itertools::Itertools::chunks(size)`: `assert!(size != 0)`; for `size ≥ 1` the chunks of `slice::chunks` -/
def itChunksO {α : Type} (n : Nat) (l : List α) : Outcome (List (List α)) :=
  if n = 0 then .panic "itertools/chunks-zero" else .ok (chunks n l)

/-- `run_newline_json(query_file, chunksize_option, app, run_config)` on an opened file.  An unreadable file is
an endless sequence of chunks without a single query: the first `run` of the empty batch either fails (the call
ends) or the loop never ends (for a chunk size the machine can collect; with a huge one the first chunk is
never complete — `diverges` as well; this arm answers `Err(run)` there when the run of the empty batch fails,
which the code never reaches: inexact, and dead — `commandLineRunnerO` refuses an unreadable file before the
dispatch since fix 08a69e9, and no theorem speaks about this arm with a failing run). -/
def runNewlineJsonO {ε ρ : Type} (run : List Json → Outcome (Except ε ρ)) (chunksize : Option Nat) :
    QueryFile → Outcome (CliOut ε ρ)
  | .missing => .ok { log := [], result := .error .queryFileMissing }
  | .unreadable =>
    if chunksize.getD usizeMax = 0 then .panic "itertools/chunks-zero"
    else match run [] with
      | .panic s => .panic s
      | .diverges => .diverges
      | .ok (.error e) => .ok { log := [], result := .error (.run e) }
      | .ok (.ok _) => .diverges
  | .content _ lines =>
    match itChunksO (chunksize.getD usizeMax) lines with
    | .panic s => .panic s
    | .diverges => .diverges
    | .ok cs => runChunksO run cs

/-- `run_json` on an opened file: one document, `get_queries`, one `run` -/
def runJsonO {ε ρ : Type} (run : List Json → Outcome (Except ε ρ)) : QueryFile → Outcome (CliOut ε ρ)
  | .missing => .ok { log := [], result := .error .queryFileMissing }
  | .unreadable => .ok { log := [], result := .error .notJson }
  | .content none _ => .ok { log := [], result := .error .notJson }
  | .content (some v) _ =>
    match getQueries v with
    | none => .ok { log := [], result := .error .notABatch }
    | some batch =>
      match run batch with
      | .panic s => .panic s
      | .diverges => .diverges
      | .ok (.error e) => .ok { log := [], result := .error (.run e) }
      | .ok (.ok r) => .ok { log := [{ served := r, parseErrors := 0 }], result := .ok () }

/-- the `match (args.chunksize, args.newline_delimited)` of `command_line_runner`, on an opened file -/
def dispatchO {ε ρ : Type} (run : List Json → Outcome (Except ε ρ)) (a : CliArgs) (file : QueryFile) :
    Outcome (CliOut ε ρ) :=
  match a.chunksize, a.newlineDelimited with
  | none, true => .ok { log := [], result := .error .invalidCombination }
  | none, false => runJsonO run file
  | some _, true =>
    match getChunksizeOption (ε := ε) a with
    | .error e => .ok { log := [], result := .error e }
    | .ok cs => runNewlineJsonO run cs file
  | some _, false => .ok { log := [], result := .error .notImplemented }

/-- everything of `command_line_runner` after `validate` -/
def afterValidateO {ε ρ : Type} (run : List Json → Outcome (Except ε ρ)) (a : CliArgs) (cfg : ConfigFile)
    (file : QueryFile) : Outcome (CliOut ε ρ) :=
  match cfg with
  | .unreadable => .ok { log := [], result := .error .configFile }
  | .unbuildable => .ok { log := [], result := .error .appBuild }
  | .good =>
    match file with
    | .missing => .ok { log := [], result := .error .queryFileMissing }
    -- `query_file.metadata().is_dir()` right after `File::open` (fix fffeda5: the path used to reach the
    -- dispatch, and `run_newline_json` never returned on it)
    | .unreadable => .ok { log := [], result := .error .queryFileMissing }
    | .content doc lines => dispatchO run a (.content doc lines)

/-- `command_line_runner(args, builder, run_config)`: `run` is `CompassApp::run(·, run_config)` of the
application the configuration file builds -/
def commandLineRunnerO {ε ρ : Type} (run : List Json → Outcome (Except ε ρ)) (a : CliArgs) (cfg : ConfigFile)
    (file : QueryFile) : Outcome (CliOut ε ρ) :=
  match validate (ε := ε) a with
  | .error e => .ok { log := [], result := .error e }
  | .ok () => afterValidateO run a cfg file

end Cli
end Compass
