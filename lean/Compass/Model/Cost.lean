/-
Cost model: `routee-compass-core/src/model/cost/{cost_model,cost_ops,cost_aggregation}.rs`,
`vehicle/vehicle_cost_rate.rs`, `network/network_cost_rate.rs`, `unit/cost.rs` (`enforce_*`),
`algorithm/search/edge_traversal.rs` (the cost bookkeeping of `EdgeTraversal`).
`none` stands for the `Err(CostModelError::…)` results (index out of bounds; weights summing to zero
in `CostModel::new`).
-/
import Compass.Gen.Consts

namespace Compass

/-- `VehicleCostRate` -/
inductive VehicleCostRate (α : Type) where
  | zero
  | raw
  | factor (f : α)
  | offset (o : α)
  | combined (rs : List (VehicleCostRate α))

/-- `NetworkCostRate`; lookups are association lists with unique keys (a `HashMap` in the code) -/
inductive NetworkCostRate (α : Type) where
  | zero
  | edgeLookup (tbl : List (Nat × α))
  | edgeEdgeLookup (tbl : List ((Nat × Nat) × α))
  | combined (rs : List (NetworkCostRate α))

inductive CostAggregation where
  | sum
  | mul
  deriving DecidableEq, Repr

section
variable {α : Type} [Add α] [Sub α] [Mul α] [LT α] [LE α] [DecidableLT α] [DecidableLE α] [Lit α]

/-- `Cost::MIN_COST` -/
def minCost : α := Lit.lit minCostLit.1 minCostLit.2

/-- `Cost::enforce_strictly_positive` -/
def enforceStrictlyPositive (c : α) : α := if c ≤ (zero : α) then minCost else c

/-- `Cost::enforce_non_negative` -/
def enforceNonNegative (c : α) : α := if c < (zero : α) then zero else c

mutual
/-- `VehicleCostRate::map_value` -/
def VehicleCostRate.mapValue : VehicleCostRate α → α → α
  | .zero, _ => Compass.zero
  | .raw, x => x
  | .factor f, x => x * f
  | .offset o, x => x + o
  | .combined rs, x => VehicleCostRate.mapValueList rs x
/-- the `fold` of the `Combined` arm: apply the mappings left to right -/
def VehicleCostRate.mapValueList : List (VehicleCostRate α) → α → α
  | [], acc => acc
  | r :: rs, acc => VehicleCostRate.mapValueList rs (r.mapValue acc)
end

def lookup1 (tbl : List (Nat × α)) (k : Nat) : α :=
  match tbl.find? (fun p => p.1 == k) with
  | some p => p.2
  | none => zero

def lookup2 (tbl : List ((Nat × Nat) × α)) (k : Nat × Nat) : α :=
  match tbl.find? (fun p => p.1.1 == k.1 && p.1.2 == k.2) with
  | some p => p.2
  | none => zero

mutual
/-- `NetworkCostRate::traversal_cost` (state variables are ignored by the code) -/
def NetworkCostRate.traversalCost : NetworkCostRate α → Nat → α
  | .zero, _ => Compass.zero
  | .edgeEdgeLookup _, _ => Compass.zero
  | .edgeLookup tbl, e => lookup1 tbl e
  | .combined rs, e => NetworkCostRate.traversalCostList rs e Compass.zero
def NetworkCostRate.traversalCostList : List (NetworkCostRate α) → Nat → α → α
  | [], _, acc => acc
  | r :: rs, e, acc => NetworkCostRate.traversalCostList rs e (acc + r.traversalCost e)
end

mutual
/-- `NetworkCostRate::access_cost` -/
def NetworkCostRate.accessCost : NetworkCostRate α → Nat → Nat → α
  | .zero, _, _ => Compass.zero
  | .edgeLookup _, _, _ => Compass.zero
  | .edgeEdgeLookup tbl, p, n => lookup2 tbl (p, n)
  | .combined rs, p, n => NetworkCostRate.accessCostList rs p n Compass.zero
def NetworkCostRate.accessCostList : List (NetworkCostRate α) → Nat → Nat → α → α
  | [], _, _, acc => acc
  | r :: rs, p, n, acc => NetworkCostRate.accessCostList rs p n (acc + r.accessCost p n)
end

/-- `CostAggregation::agg_iter` over already computed per-feature costs (errors handled by caller) -/
def CostAggregation.agg (a : CostAggregation) (costs : List α) : α :=
  match a with
  | .sum => costs.foldl (· + ·) zero
  | .mul => if costs.isEmpty then zero else costs.foldl (· * ·) one

/-- sequence a list of options (first error wins; the code stops at the first `Err`) -/
def allSome : List (Option β) → Option (List β)
  | [] => some []
  | none :: _ => none
  | some x :: r => match allSome r with
    | some l => some (x :: l)
    | none => none

/-- `CostModel` after `CostModel::new`: vectors indexed by state index -/
structure CostModel (α : Type) where
  /-- `feature_indices` (the names do not matter): the state indices iterated over -/
  indices : List Nat
  weights : List α
  vehicleRates : List (VehicleCostRate α)
  networkRates : List (NetworkCostRate α)
  agg : CostAggregation

/-- one item of the iterator in `cost_ops::calculate_vehicle_costs`: `map_value(next − prev) * weight` -/
def CostModel.vehicleTerm (m : CostModel α) (prev next : List α) (i : Nat) : Option α :=
  match prev[i]?, next[i]?, m.vehicleRates[i]?, m.weights[i]? with
  | some p, some n, some r, some w => some (r.mapValue (n - p) * w)
  | _, _, _, _ => none

/-- one item of the iterator in `cost_ops::calculate_network_traversal_costs` -/
def CostModel.networkTraversalTerm (m : CostModel α) (prev next : List α) (e : Nat) (i : Nat) : Option α :=
  match prev[i]?, next[i]?, m.weights[i]?, m.networkRates[i]? with
  | some _, some _, some w, some r => some (r.traversalCost e * w)
  | _, _, _, _ => none

/-- one item of the iterator in `cost_ops::calculate_network_access_costs`
(a missing rate gives zero, a missing weight the coefficient one) -/
def CostModel.networkAccessTerm (m : CostModel α) (prev next : List α) (pe ne : Nat) (i : Nat) : Option α :=
  match m.networkRates[i]? with
  | none => some (zero : α)
  | some r =>
    match prev[i]?, next[i]? with
    | some _, some _ => some (r.accessCost pe ne * (match m.weights[i]? with | some w => w | none => one))
    | _, _ => none

/-- `CostAggregation::agg_iter`: the first `Err` wins, otherwise aggregate -/
def CostAggregation.aggIter (a : CostAggregation) (items : List (Option α)) : Option α :=
  match allSome items with
  | some cs => some (a.agg cs)
  | none => none

/-- `cost_ops::calculate_vehicle_costs` -/
def CostModel.vehicleCosts (m : CostModel α) (prev next : List α) : Option α :=
  m.agg.aggIter (m.indices.map (m.vehicleTerm prev next))

/-- `cost_ops::calculate_network_traversal_costs` -/
def CostModel.networkTraversalCosts (m : CostModel α) (prev next : List α) (e : Nat) : Option α :=
  m.agg.aggIter (m.indices.map (m.networkTraversalTerm prev next e))

/-- `cost_ops::calculate_network_access_costs` -/
def CostModel.networkAccessCosts (m : CostModel α) (prev next : List α) (pe ne : Nat) : Option α :=
  m.agg.aggIter (m.indices.map (m.networkAccessTerm prev next pe ne))

/-- `total_cost` of `CostModel::traversal_cost`, before `enforce_strictly_positive` -/
def CostModel.traversalTotal (m : CostModel α) (e : Nat) (prev next : List α) : Option α :=
  match m.vehicleCosts prev next, m.networkTraversalCosts prev next e with
  | some v, some n => some (v + n)
  | _, _ => none

/-- `total_cost` of `CostModel::access_cost`, before `enforce_strictly_positive` -/
def CostModel.accessTotal (m : CostModel α) (pe ne : Nat) (prev next : List α) : Option α :=
  match m.vehicleCosts prev next, m.networkAccessCosts prev next pe ne with
  | some v, some n => some (v + n)
  | _, _ => none

/-- `CostModel::traversal_cost` -/
def CostModel.traversalCost (m : CostModel α) (e : Nat) (prev next : List α) : Option α :=
  match m.traversalTotal e prev next with
  | some t => some (enforceStrictlyPositive t)
  | none => none

/-- `CostModel::access_cost` -/
def CostModel.accessCost (m : CostModel α) (pe ne : Nat) (prev next : List α) : Option α :=
  match m.accessTotal pe ne prev next with
  | some t => some (enforceStrictlyPositive t)
  | none => none

/-- `CostModel::cost_estimate` -/
def CostModel.costEstimate (m : CostModel α) (src dst : List α) : Option α :=
  match m.vehicleCosts src dst with
  | some v => some (enforceNonNegative v)
  | none => none

/-- what `CostModel::new` knows about one state feature: the entries of the three name-keyed
mappings for the feature's name (`none` = the name is absent from that mapping) -/
abbrev FeatureConfig (α : Type) := Option α × Option (VehicleCostRate α) × Option (NetworkCostRate α)

/-- `weights_mapping.get(name).cloned().unwrap_or_default()`: an absent weight is `0.0` -/
def FeatureConfig.weight (f : FeatureConfig α) : α :=
  match f.1 with | some w => w | none => zero
/-- `vehicle_rate_mapping.get(name).cloned().unwrap_or_default()`: an absent rate is `Zero` -/
def FeatureConfig.vehicleRate (f : FeatureConfig α) : VehicleCostRate α :=
  match f.2.1 with | some r => r | none => .zero
/-- `network_rate_mapping.get(name).cloned().unwrap_or_default()`: an absent rate is `Zero` -/
def FeatureConfig.networkRate (f : FeatureConfig α) : NetworkCostRate α :=
  match f.2.2 with | some r => r | none => .zero

/-- `CostModel::new`.  `features` has one entry per state feature, in the order
`state_model.indexed_iter()` yields them (so the state indices are `0 … n-1`).
`none` = `Err(InvalidCostVariables)`: the weights sum to zero (`iter().sum::<f64>() == 0.0`). -/
def CostModel.new (features : List (FeatureConfig α)) (agg : CostAggregation) : Option (CostModel α) :=
  let weights : List α := features.map FeatureConfig.weight
  let s : α := weights.foldl (· + ·) zero
  if s ≤ zero ∧ zero ≤ s then none
  else some {
    indices := List.range features.length
    weights := weights
    vehicleRates := features.map FeatureConfig.vehicleRate
    networkRates := features.map FeatureConfig.networkRate
    agg := agg }

/-- `EdgeTraversal::total_cost` of the record built by `forward_traversal` / `reverse_traversal`:
`access_cost` as accumulated there, `traversal_cost = total − access_cost` where `total` is what
`CostModel::traversal_cost` returned -/
def edgeTotalCost (access traversalTotal : α) : α := access + (traversalTotal - access)

/-- the `access_cost` field of the `EdgeTraversal` record: `Cost::ZERO`, plus the access cost when
there is a previous edge -/
def edgeAccessShare (ac : Option α) : α :=
  match ac with
  | none => zero
  | some a => zero + a

/-- the cost bookkeeping of `EdgeTraversal::forward_traversal` / `reverse_traversal`.
`trav` is the traversed edge, `pair` the `(prev_edge, next_edge)` pair handed to `access_cost` when the
optional neighbouring edge is present (forward: `(previous edge, trav)`, reverse: `(trav, next edge)`),
`prev` the state before, `accessed` the state after `access_model.access_edge`, `next` the state after
`traversal_model.traverse_edge`.  Returns the `access_cost` and `traversal_cost` fields of the record;
`none` = the `Err` of either cost-model call. -/
def CostModel.edgeTraversal (m : CostModel α) (trav : Nat) (pair : Option (Nat × Nat))
    (prev accessed next : List α) : Option (α × α) :=
  match pair with
  | none =>
    match m.traversalCost trav prev next with
    | some t => let acc : α := edgeAccessShare none; some (acc, t - acc)
    | none => none
  | some (pe, ne) =>
    match m.accessCost pe ne prev accessed with
    | none => none
    | some a =>
      match m.traversalCost trav prev next with
      | some t => let acc : α := edgeAccessShare (some a); some (acc, t - acc)
      | none => none

/-- `EdgeTraversal::total_cost`: `access_cost + traversal_cost` -/
def edgeRecordTotal (r : α × α) : α := r.1 + r.2

end

end Compass
