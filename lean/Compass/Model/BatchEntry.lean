/-
Model of the entry points around `CompassApp::run` (C06, C12), on top of `Model/Batch.lean`:

* `app/compass/compass_json_extensions.rs` — `get_queries`: how the user's JSON (an array, an object, an object
  with a `queries` field, anything else) becomes the batch;
* `app/compass/compass_app.rs::run` — the per-run configuration (`parallelism`, `response_persistence_policy`,
  `response_output_policy` through `get_optional_run_config` / `get_config_serde_optional`), building the
  response sink (`ResponseOutputPolicy::build`), writing the error responses and the search responses to it
  (`run_batch_with_responses`, `run_batch_without_responses`) — the sink's file system is environment and comes
  in as data (`SinkSpec`);
* `app/bindings.rs` — `CompassAppBindings::run_queries` (queries and configuration as JSON *texts*; whether a text
  parses is `serde_json`'s business and comes in as data);
* `plugin/input/default/inject/{inject_builder,inject_format}.rs`, `…/load_balancer/builder.rs` — the plugin
  builders from configuration;
* `CompassApp::try_from((&Config, &CompassAppBuilder))` — the order of the build stages (first failure wins).

Imports only Model files (links into the driver).
-/
import Compass.Model.Batch

namespace Compass
namespace Batch
open MultiSet (Outcome)

/-! ### `get_queries` -/

/-- `CompassInputField::Queries.to_str()` -/
def queriesKey : String := "queries"

/-- `CompassJsonExtensions::get_queries`: `none` = `Err(CompassFailure(..))` -/
def getQueries : Json → Option (List Json)
  | .arr qs => some qs
  | .obj kvs =>
    match Json.lookup kvs queriesKey with
    | none => some [.obj kvs]
    | some (.arr qs) => some qs
    | some _ => none
  | _ => none

/-! ### the per-run configuration -/

/-- a file sink as its environment treats it: can the file be opened for appending, do writes succeed
(`writeOk` is ONE flag for every write of the call — a sink whose first writes succeed and a later one fails is
not expressible) -/
structure SinkSpec where
  openOk : Bool
  writeOk : Bool
  /-- `file_flush_rate` -/
  flushRate : Option Int
  deriving Repr

/-- `ResponseOutputPolicy` (the `Combined` policy and the CSV format are not modelled: C19) -/
inductive OutPolicy where
  | none
  | file (s : SinkSpec)
  deriving Repr

/-- errors that end the whole call -/
inductive CallErr where
  /-- `get_queries` refused the value (`CompassFailure`) -/
  | notABatch
  /-- a per-run configuration value does not deserialize (`SerdeDeserializationError`) -/
  | runConfig
  /-- the sink's file cannot be opened (`InternalError`) -/
  | sinkOpen
  /-- `file_flush_rate <= 0` (`CompassFailure`) -/
  | flushRate
  /-- a write to the sink failed (`InternalError`) -/
  | sinkWrite
  /-- a query / configuration text of `run_queries` is not JSON -/
  | notJson
  /-- an error of `runO` (parallelism 0) -/
  | app (e : AppErr)
  deriving Repr

/-- `serde_json::from_value::<usize>`: a non-negative integer number -/
def decodeUsize (v : Json) : Option Nat := v.asU64?

/-- `from_value::<ResponsePersistencePolicy>`: the variant name as a string, or serde's map form
`{"variant": null}`; `true` = persist -/
def decodePersistName : String → Option Bool
  | "persist_response_in_memory" => some true
  | "discard_response_from_memory" => some false
  | _ => none

def decodePersist : Json → Option Bool
  | .str s => decodePersistName s
  | .obj [(k, .null)] => decodePersistName k
  | _ => none

/-- `Option<i64>` field: absent or `null` is `None` -/
def decodeFlushRate : Option Json → Option (Option Int)
  | none => some none
  | some .null => some none
  | some v => match v.asI64? with
    | some i => some (some i)
    | none => none

/-! #### serde's internally tagged enums (`#[serde(tag = "type")]`)

`serde` accepts two shapes: an object carrying the tag under `"type"` (the other entries are the variant's
fields, unknown keys ignored), and a SEQUENCE whose first element is the tag (the remaining elements are the
fields, by position, exactly as many as the variant has — a unit variant takes none).  The tag is the variant's
name; where the value has already been buffered by an enclosing internally tagged enum ("nested": the `format`
of a file policy, the `custom_weight_type` of a custom heuristic) the variant's INDEX is accepted as well. -/

/-- what the variant is handed: the entries of the object, or the elements after the tag -/
inductive Tagged where
  | fields (kvs : List (String × Json))
  | seq (xs : List Json)

/-- the variant a tag names: its name, or (nested only) its index in declaration order -/
def tagName (variants : List String) (nested : Bool) : Json → Option String
  | .str t => if variants.contains t then some t else none
  | .num l b => if nested then (match (Json.num l b).asU64? with | some i => variants[i]? | none => none) else none
  | _ => none

def tagged (variants : List String) (nested : Bool) : Json → Option (String × Tagged)
  | .obj kvs =>
    match Json.lookup kvs "type" with
    | some t => (tagName variants nested t).map (fun n => (n, .fields kvs))
    | none => none
  | .arr (t :: rest) => (tagName variants nested t).map (fun n => (n, .seq rest))
  | _ => none

/-- a sequence must have exactly the variant's number of fields -/
def Tagged.arity (c : Tagged) (n : Nat) : Bool :=
  match c with
  | .fields _ => true
  | .seq xs => xs.length == n

/-- a required field: by name, or by position -/
def Tagged.req (c : Tagged) (name : String) (idx : Nat) : Option Json :=
  match c with
  | .fields kvs => Json.lookup kvs name
  | .seq xs => xs[idx]?

/-- an `Option<_>` field: absent from an object or `null` is `None`; in a sequence the position must exist -/
def Tagged.opt (c : Tagged) (name : String) (idx : Nat) : Option (Option Json) :=
  match c with
  | .fields kvs =>
    match Json.lookup kvs name with
    | none => some none
    | some .null => some none
    | some v => some (some v)
  | .seq xs =>
    match xs[idx]? with
    | none => none
    | some .null => some none
    | some v => some (some v)

/-- `ResponseOutputFormat::Json { newline_delimited }` (always nested: inside a file policy; the CSV format is
not modelled: C19) -/
def isJsonFormat (j : Json) : Bool :=
  match tagged ["json", "csv"] true j with
  | some ("json", c) =>
    c.arity 1 && (match c.req "newline_delimited" 0 with | some (.bool _) => true | _ => false)
  | _ => false

/-- `Option<i64>` -/
def decodeOptI64 : Option Json → Option (Option Int)
  | none => some none
  | some v => match v.asI64? with
    | some i => some (some i)
    | none => none

/-- `from_value::<ResponseOutputPolicy>` (top level: the tag must be the name; the `Combined` policy is not
modelled — `isCombined` — nor is a file policy with the CSV format — `isCsvFile`; for both the answer `none`
is NOT the code's, and the harness offers neither); `env` says how the file system treats a file name -/
def decodePolicy (env : String → Bool × Bool) (j : Json) : Option OutPolicy :=
  match tagged ["none", "file", "combined"] false j with
  | some ("none", c) => if c.arity 0 then some .none else none
  | some ("file", c) =>
    if !c.arity 3 then none
    else
      match c.req "filename" 0, c.req "format" 1, c.opt "file_flush_rate" 2 with
      | some (.str f), some fmt, some rate =>
        match decodeOptI64 rate with
        | some r =>
          if isJsonFormat fmt then some (.file { openOk := (env f).1, writeOk := (env f).2, flushRate := r })
          else none
        | none => none
      | _, _, _ => none
  | _ => none

/-- the value names the (unmodelled) `Combined` policy -/
def isCombined (j : Json) : Bool :=
  match tagged ["none", "file", "combined"] false j with
  | some ("combined", _) => true
  | _ => false

/-- the value names a file policy whose format is the (unmodelled, C19) CSV format: in the code such a policy
deserializes and a CSV sink is built; `decodePolicy` answers `none` for it, which is NOT what the code does —
every statement about a refused output policy therefore carries `isCsvFile v = false` next to
`isCombined v = false`; the harness offers neither -/
def isCsvFile (j : Json) : Bool :=
  match tagged ["none", "file", "combined"] false j with
  | some ("file", c) =>
    match c.req "format" 1 with
    | some fmt =>
      (match tagged ["json", "csv"] true fmt with
       | some ("csv", _) => true
       | _ => false)
    | none => false
  | _ => false

structure RunOverrides where
  par : Option Nat
  persist : Option Bool
  policy : Option OutPolicy

/-- one `get_optional_run_config(key, …)`: no configuration, or a configuration without the key (in particular
one that is not an object) is `None`; a present value must deserialize -/
def runConfigKey {β : Type} (cfg : Option Json) (key : String) (dec : Json → Option β) :
    Option (Option β) :=
  match cfg with
  | none => some none
  | some c =>
    match c.get? key with
    | none => some none
    | some v => match dec v with
      | some b => some (some b)
      | none => none

/-- the three overrides, in the order of the code; `none` = `Err` for the whole call -/
def parseRunConfig (env : String → Bool × Bool) (cfg : Option Json) : Option RunOverrides :=
  match runConfigKey cfg "parallelism" decodeUsize with
  | none => none
  | some par =>
    match runConfigKey cfg "response_persistence_policy" decodePersist with
    | none => none
    | some persist =>
      match runConfigKey cfg "response_output_policy" (decodePolicy env) with
      | none => none
      | some policy => some { par := par, persist := persist, policy := policy }

/-- `ResponseOutputPolicy::build`: the file is opened first, then the flush rate is checked -/
def buildSink : OutPolicy → Except CallErr Unit
  | .none => .ok ()
  | .file s =>
    if !s.openOk then .error .sinkOpen
    else match s.flushRate with
      | some r => if r ≤ 0 then .error .flushRate else .ok ()
      | none => .ok ()

/-- does a `write_response` on this sink fail -/
def sinkFails : OutPolicy → Bool
  | .none => false
  | .file s => !s.writeOk

/-- the configured application: plugins, `parallelism`, persistence policy, output policy -/
structure App where
  plugins : List Plugin
  parallelism : Nat
  persist : Bool
  policy : OutPolicy

/-- `CompassApp::run(queries, config)` with its per-run configuration and its sink.  Order of the code:
overrides (parallelism, persistence, output policy), `build` of the sink, input plugins, load balancing
(`Err` for parallelism 0), the error responses written to the sink, the early return, the searches with each
response written to the sink — under both policies a failed write ends the call with `Err`
(`run_batch_without_responses` propagates it since fix 80a5c9a). -/
def callCoreO {α : Type} (W : WOps α) (cfg : Config) (sink : OutPolicy) (respond : Json → Json)
    (batch : List Json) : Outcome (Except CallErr (List Json)) :=
  match parChunksO (chunkSize batch.length cfg.selfPar) batch with
  | .panic s => .panic s
  | .diverges => .diverges
  | .ok cs =>
    match mapChunksO cfg.plugins cs with
    | .panic s => .panic s
    | .diverges => .diverges
    | .ok results =>
      let processed := ((results.map (·.1)).flatten).flatten
      let errors := (results.map (·.2)).flatten
      match balanceO W cfg.parallelism processed with
      | .panic s => .panic s
      | .diverges => .diverges
      | .ok (.error e) => .ok (.error (.app e))
      | .ok (.ok bins) =>
        if sinkFails sink && !errors.isEmpty then .ok (.error .sinkWrite)
        else if bins.isEmpty then .ok (.ok errors)
        else if sinkFails sink then .ok (.error .sinkWrite)
        else .ok (.ok (assemble cfg.persist respond bins errors))

/-- the configuration of one call: the application's, with the per-run overrides -/
def App.config (app : App) (o : RunOverrides) : Config :=
  { plugins := app.plugins, selfPar := app.parallelism, runPar := o.par, persist := o.persist.getD app.persist }

def callO {α : Type} (W : WOps α) (env : String → Bool × Bool) (app : App) (runCfg : Option Json)
    (respond : Json → Json) (batch : List Json) : Outcome (Except CallErr (List Json)) :=
  match parseRunConfig env runCfg with
  | none => .ok (.error .runConfig)
  | some o =>
    match buildSink (o.policy.getD app.policy) with
    | .error e => .ok (.error e)
    | .ok () => callCoreO W (app.config o) (o.policy.getD app.policy) respond batch

/-- `run` offered a JSON value: `get_queries`, then `run` (the command-line entry) -/
def callValueO {α : Type} (W : WOps α) (env : String → Bool × Bool) (app : App) (runCfg : Option Json)
    (respond : Json → Json) (v : Json) : Outcome (Except CallErr (List Json)) :=
  match getQueries v with
  | none => .ok (.error .notABatch)
  | some batch => callO W env app runCfg respond batch

/-- `CompassAppBindings::run_queries(queries: Vec<String>, config: Option<String>)`: each text is parsed
(`none` = it is not JSON); the configuration is parsed first; one text that does not parse fails the call -/
def runQueriesO {α : Type} (W : WOps α) (env : String → Bool × Bool) (app : App)
    (runCfg : Option (Option Json)) (respond : Json → Json) (texts : List (Option Json)) :
    Outcome (Except CallErr (List Json)) :=
  match runCfg with
  | some none => .ok (.error .notJson)
  | _ =>
    if texts.any Option.isNone then .ok (.error .notJson)
    else callO W env app (runCfg.bind id) respond (texts.filterMap id)

/-! ### plugin builders -/

inductive BuildErr where
  /-- `ExpectedFieldForComponent` -/
  | missingField
  /-- `ExpectedFieldWithType` -/
  | wrongType
  /-- `SerdeDeserializationError` -/
  | serde
  /-- `UserConfigurationError` -/
  | userConfig
  deriving DecidableEq, Repr

/-- `get_config_string(key, …)` -/
def cfgString (params : Json) (key : String) : Except BuildErr String :=
  match params.get? key with
  | none => .error .missingField
  | some (.str s) => .ok s
  | some _ => .error .wrongType

inductive InjectFormat where
  | string | json | toml
  deriving DecidableEq, Repr

def injectFormatName : String → Option InjectFormat
  | "string" => some .string
  | "json" => some .json
  | "toml" => some .toml
  | _ => none

/-- `from_value::<InjectFormat>` -/
def decodeInjectFormat : Json → Option InjectFormat
  | .str s => injectFormatName s
  | .obj [(k, .null)] => injectFormatName k
  | _ => none

/-- `InjectPluginBuilder::build(parameters)`.  `parsedString` / `parsedJson`: what `serde_json` makes of the
value text enquoted as a JSON string / as it stands (`none`: it does not parse).  The `toml` format is not
implemented: an error (it was `todo!()`, a panic while the application is built). -/
def buildInject (params : Json) (parsedString parsedJson : Option Json) : Outcome (Except BuildErr Plugin) :=
  match cfgString params "key" with
  | .error e => .ok (.error e)
  | .ok key =>
    match cfgString params "value" with
    | .error e => .ok (.error e)
    | .ok _ =>
      match params.get? "format" with
      | none => .ok (.error .missingField)
      | some f =>
        match decodeInjectFormat f with
        | none => .ok (.error .serde)
        | some fmt =>
          let value : Except BuildErr Json :=
            match fmt with
            | .string => match parsedString with | some v => .ok v | none => .error .userConfig
            | .json => match parsedJson with | some v => .ok v | none => .error .userConfig
            | .toml => .error .userConfig
          match value with
          | .error e => .ok (.error e)
          | .ok v =>
            match params.get? "overwrite" with
            | none => .ok (.ok (.inject key v true))
            | some (.bool b) => .ok (.ok (.inject key v b))
            | some _ => .ok (.error .serde)

/-- `f64` field of a serde struct: any JSON number -/
def decodeF64 : Json → Option Nat
  | .num _ b => some b
  | _ => none

/-- `Option<String>` field -/
def decodeOptString : Option Json → Option (Option String)
  | none => some none
  | some .null => some none
  | some (.str s) => some (some s)
  | some _ => none

/-- `HashMap<String, f64>` -/
def decodeMapping : List (String × Json) → Option (List (String × Nat))
  | [] => some []
  | (k, v) :: r =>
    match decodeF64 v, decodeMapping r with
    | some b, some m => some ((k, b) :: m)
    | _, _ => none

/-- `CustomWeightType` (always nested: inside `WeightHeuristic::Custom`) -/
def decodeCustomWeight (fmt : Nat → String) (j : Json) : Option Plugin :=
  match tagged ["numeric", "categorical"] true j with
  | some ("numeric", c) =>
    if !c.arity 1 then none
    else match c.opt "column_name" 0 with
      | some col => match decodeOptString col with
        | some col => some (.lbNumeric (col.getD weightKey) fmt)
        | none => none
      | none => none
  | some ("categorical", c) =>
    if !c.arity 3 then none
    else match c.opt "column_name" 0, c.req "mapping" 1, c.opt "default" 2 with
      | some col, some (.obj m), some dflt =>
        match decodeOptString col, decodeMapping m with
        | some col, some mapping =>
          match dflt with
          | none => some (.lbCategorical (col.getD weightKey) mapping none fmt)
          | some d => match decodeF64 d with
            | some b => some (.lbCategorical (col.getD weightKey) mapping (some b) fmt)
            | none => none
        | _, _ => none
      | _, _, _ => none
  | _ => none

/-- what `LoadBalancerBuilder::build` makes of its parameters: a modelled custom heuristic, or the haversine
heuristic (opaque to the model) -/
inductive LbBuilt where
  | custom (p : Plugin)
  | haversine

/-- `LoadBalancerBuilder::build(params)`: `weight_heuristic` through `get_config_serde::<WeightHeuristic>` (top
level: object or sequence, the tag by name) -/
def buildLoadBalancer (fmt : Nat → String) (params : Json) : Except BuildErr LbBuilt :=
  match params.get? "weight_heuristic" with
  | none => .error .missingField
  | some v =>
    match tagged ["haversine", "custom"] false v with
    | some ("haversine", c) => if c.arity 0 then .ok .haversine else .error .serde
    | some ("custom", c) =>
      if !c.arity 1 then .error .serde
      else match c.req "custom_weight_type" 0 with
        | some cw => match decodeCustomWeight fmt cw with
          | some p => .ok (.custom p)
          | none => .error .serde
        | none => .error .serde
    | _ => .error .serde

/-! ### `CompassApp::try_from((&Config, &CompassAppBuilder))`: the stages, first failure wins -/

/-- the stages in the order of the code (the `parallelism` stage fails for a value that is not — or that the
configuration library cannot turn into — an unsigned integer, and, since fix 934a229, for 0) -/
def buildStages : List String :=
  ["config", "algorithm", "state", "traversal", "access", "cost", "frontier", "termination", "graph",
   "input_plugins", "output_plugins", "parallelism", "search_orientation", "response_persistence_policy",
   "response_output_policy"]

/-- the stage whose error the build reports, given which stages fail on their own -/
def firstFailure (fails : String → Bool) : Option String := buildStages.find? fails

end Batch
end Compass

namespace Compass
namespace Batch
open MultiSet (Outcome)

/-! ### a single-query function that may itself panic or not return -/

/-- the searches of the bins, one after the other; a panic (or a search that does not return) in a worker is
the outcome of the whole call (rayon propagates a worker's panic) -/
def respondAllO (respondO : Json → Outcome Json) : List Json → Outcome (List Json)
  | [] => .ok []
  | q :: r =>
    match respondO q with
    | .panic s => .panic s
    | .diverges => .diverges
    | .ok v =>
      match respondAllO respondO r with
      | .ok vs => .ok (v :: vs)
      | .panic s => .panic s
      | .diverges => .diverges

/-- everything of `run` before the searches: the bins and the error responses of the input stage -/
def searchedO {α : Type} (W : WOps α) (cfg : Config) (batch : List Json) :
    Outcome (Except AppErr (List (List Json) × List Json)) :=
  match parChunksO (chunkSize batch.length cfg.selfPar) batch with
  | .panic s => .panic s
  | .diverges => .diverges
  | .ok cs =>
    match mapChunksO cfg.plugins cs with
    | .panic s => .panic s
    | .diverges => .diverges
    | .ok results =>
      let processed := ((results.map (·.1)).flatten).flatten
      let errors := (results.map (·.2)).flatten
      match balanceO W cfg.parallelism processed with
      | .panic s => .panic s
      | .diverges => .diverges
      | .ok (.error e) => .ok (.error e)
      | .ok (.ok bins) => .ok (.ok (bins, errors))

/-- `CompassApp::run` over a single-query function with outcomes (`run_single_query` as it is: it may panic,
it may not return).  Under both persistence policies every query of every bin is run. -/
def runRO {α : Type} (W : WOps α) (cfg : Config) (respondO : Json → Outcome Json) (batch : List Json) :
    Outcome (Except AppErr (List Json)) :=
  match searchedO W cfg batch with
  | .panic s => .panic s
  | .diverges => .diverges
  | .ok (.error e) => .ok (.error e)
  | .ok (.ok (bins, errors)) =>
    if bins.isEmpty then .ok (.ok errors)
    else
      match respondAllO respondO bins.flatten with
      | .panic s => .panic s
      | .diverges => .diverges
      | .ok vs => .ok (.ok (if cfg.persist then vs ++ errors else errors))

/-! ### the packaging of a response: `run_single_query` = search + `apply_output_processing` -/

/-- `create_initial_output` + the output plugins + `package_error`, as far as the shape of the response goes.
`search q`: `some text` = the search failed with this error text; an output plugin maps (request, output so
far) to the new output or fails with an error text -/
def applyOut : List (Json → Json → Except String Json) → Json → Json → Json
  | [], _, out => out
  | p :: ps, q, out =>
    match p q out with
    | .error e => .obj [("request", q), ("error", .str e)]
    | .ok out' => applyOut ps q out'

def singleQuery (search : Json → Option String) (plugins : List (Json → Json → Except String Json))
    (q : Json) : Json :=
  match search q with
  | some e => .obj [("request", q), ("error", .str e)]
  | none => applyOut plugins q (.obj [("request", q), ("output_plugin_executed_time", .str "")])

end Batch
end Compass
