/-
A small-step model of `ResponseSink::File::write_response` (response_sink.rs), in which the lock is a piece of
state and the steps of different workers interleave — the model in which "a record is never truncated or
interleaved" is a theorem about the guard instead of a property of an atomic step.

    let mut file_attained = file.lock()?;            -- acquire (both guards; always in this order)
    let mut it_attained = iterations.lock()?;
    let mut output_row = format.format_response(response)?;   -- format (may panic: unwinding poisons the lock)
    output_row.push('\n');
    file_attained.write_all(output_row.as_bytes())?;  -- one or more `write` calls on the append-mode handle
    *it_attained += 1;                                -- count (+ flush: a no-op on `std::fs::File`)
    Ok(())                                            -- release (guards dropped)

A schedule is any list of worker ids; the scheduled worker takes its next step.  A worker that wants a lock
somebody holds does not move (`guard = true`).  `guard = false` is the same code without the mutex: it exists
to show that the theorems need it.  `split` is how the operating system takes the buffer of `write_all`: the
pieces of the successive `write` calls (`fun t => [t]`: one call; the code before the repair wrote row and
line break in two calls).  Every `write` on an append-mode handle lands whole at the end of the file
(trusted: `O_APPEND`), so the file is the list of the pieces in the order they landed.

Imports only Model files.
-/
import Compass.Model.Sink

namespace Compass
namespace SinkFine
open Sink

/-- where a worker is inside `write_response` -/
inductive PC where
  | idle
  /-- holds the guards, nothing done yet -/
  | locked
  /-- formatted; `done` pieces are in the file, `pending` pieces still to be written -/
  | writing (done pending : List (List Char)) (post : Json)
  /-- everything written and counted; `written` is the text that went to the file -/
  | counted (written : List Char) (post : Json)
  /-- panicked inside the formatter -/
  | dead
  deriving Inhabited

structure Worker where
  /-- responses still to be written; the head is the one in progress while `pc ≠ idle` -/
  queue : List Json
  pc : PC := .idle
  /-- what `write_response` left in the responses handed back so far -/
  returned : List Json := []
  deriving Inhabited

structure Config where
  N : NumOps
  format : Format
  persist : Bool
  /-- the mutex is there -/
  guard : Bool
  /-- the pieces in which the OS takes a buffer -/
  split : List Char → List (List Char)

structure State where
  /-- the pieces appended to the file, in the order they landed -/
  file : List (List Char)
  iterations : Nat
  /-- who holds the guards -/
  lock : Option Nat
  poisoned : Bool
  failed : Nat
  workers : List Worker
  deriving Inhabited

def State.contents (st : State) : List Char := st.file.flatten

def setWorker (st : State) (w : Nat) (wk : Worker) : State := { st with workers := st.workers.set w wk }

/-- the next step of worker `w` -/
def step (c : Config) (st : State) (w : Nat) : State :=
  match st.workers[w]? with
  | none => st
  | some wk =>
    match wk.pc with
    | .idle =>
      match wk.queue with
      | [] => st
      | _ :: rest =>
        if c.guard then
          match st.lock with
          | some _ => st                                   -- blocked in `lock()`
          | none =>
            if st.poisoned then                            -- `lock()` returns the poison error: nothing written
              { st with failed := st.failed + 1, workers := st.workers.set w { wk with queue := rest } }
            else { st with lock := some w, workers := st.workers.set w { wk with pc := .locked } }
        else setWorker st w { wk with pc := .locked }
    | .locked =>
      match wk.queue with
      | [] => st
      | r :: _ =>
        match formatResponse c.N c.format r with
        | .ok (row, post) => setWorker st w { wk with pc := .writing [] (c.split (record row)) post }
        | .diverges => st                                  -- never returns: the guards stay taken
        | .panic =>                                        -- unwinding drops the guards and poisons them
          { st with lock := if c.guard then none else st.lock, poisoned := true, failed := st.failed + 1,
                    workers := st.workers.set w { wk with pc := .dead } }
    | .writing done (p :: ps) post =>
      { st with file := st.file ++ [p], workers := st.workers.set w { wk with pc := .writing (done ++ [p]) ps post } }
    | .writing done [] post =>
      { st with iterations := st.iterations + 1, workers := st.workers.set w { wk with pc := .counted done.flatten post } }
    | .counted _ post =>
      { st with lock := if c.guard then none else st.lock,
                workers := st.workers.set w { queue := wk.queue.tail, pc := .idle,
                                              returned := if c.persist then wk.returned ++ [post] else wk.returned } }
    | .dead => st

def exec (c : Config) (st : State) (schedule : List Nat) : State := schedule.foldl (step c) st

def init (file : List (List Char)) (iterations : Nat) (queues : List (List Json)) : State :=
  { file := file, iterations := iterations, lock := none, poisoned := false, failed := 0,
    workers := queues.map fun q => { queue := q } }

def isIdle : PC → Bool
  | .idle => true
  | _ => false

/-- every worker is outside `write_response` and has nothing left to write -/
def State.finished (st : State) : Bool := st.workers.all fun wk => isIdle wk.pc && wk.queue.isEmpty

/-- one `write` call per buffer -/
def oneCall : List Char → List (List Char) := fun t => [t]

/-- the code before the repair: `writeln!` wrote the row and the line break in two calls -/
def rowThenNewline : List Char → List (List Char) := fun t => [t.dropLast, t.drop (t.length - 1)]

/-- a schedule that lets worker 0 finish, then worker 1, … (six steps per response are plenty when the buffer
goes out in at most two calls) -/
def sequentialSchedule (queues : List (List Json)) : List Nat :=
  (queues.zipIdx.map fun (q, i) => List.replicate (6 * q.length) i).flatten

/-! ### creating the file: several sinks opening one missing path at the same time -/

/-- where a sink is on its way from `build()` to its writes -/
inductive OpenPC where
  | start
  /-- the code before the repair: `path.exists()` said no; `fs::write(path, header)` comes next -/
  | sawMissing
  /-- `create_new` succeeded: this sink made the (empty) file and owes it the header -/
  | created
  /-- the handle is open in append mode -/
  | opened
  deriving DecidableEq, Inhabited

/-- a sink that opens the file and then appends its records (each one `write` call) -/
structure Opener where
  pc : OpenPC := .start
  records : List (List Char)
  deriving Inhabited

structure OpenState where
  /-- `none`: the path is missing; otherwise the pieces in the file -/
  file : Option (List (List Char))
  openers : List Opener
  deriving Inhabited

/-- one step of sink `i`.  `checkThenWrite = true` is `WriteMode::Append` before the repair
(`if !path.exists() { fs::write(path, header) }`, then open for appending): the test and the write are two
steps, and `fs::write` TRUNCATES.  `false` is the repaired code: `create_new` (one step: fails when the file is
there), then the header on the same append-mode handle. -/
def openStep (checkThenWrite : Bool) (header : List Char) (st : OpenState) (i : Nat) : OpenState :=
  match st.openers[i]? with
  | none => st
  | some o =>
    match o.pc with
    | .start =>
      if checkThenWrite then
        { st with openers := st.openers.set i { o with pc := if st.file.isSome then .opened else .sawMissing } }
      else
        match st.file with
        | some _ => { st with openers := st.openers.set i { o with pc := .opened } }
        | none => { file := some [], openers := st.openers.set i { o with pc := .created } }
    | .sawMissing =>
      -- only the old code gets here
      if checkThenWrite then { file := some [header], openers := st.openers.set i { o with pc := .opened } } else st
    | .created => { file := st.file.map (· ++ [header]), openers := st.openers.set i { o with pc := .opened } }
    | .opened =>
      match o.records with
      | [] => st
      | r :: rest => { file := st.file.map (· ++ [r]), openers := st.openers.set i { o with records := rest } }

def openExec (checkThenWrite : Bool) (header : List Char) (st : OpenState) (schedule : List Nat) : OpenState :=
  schedule.foldl (openStep checkThenWrite header) st

end SinkFine
end Compass
