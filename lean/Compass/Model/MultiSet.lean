/-
Model of `routee-compass-core/src/util/multiset.rs`: `MultiSet`, an iterator over the Cartesian product
of a vector of vectors, implemented as a mixed-radix counter with carry.

The type used to be *partial* (`final_pos = len - 1` wrapped for an empty inner vector and the first `next`
indexed out of bounds; with no inner vector `finished` was never set and the iterator yielded `[]` for
ever).  Since the repair it is total: an empty inner vector means no combination (`pos = None` from the
start), no inner vector means the single empty combination (`finished` starts as `sets.is_empty()`).
Indexing stays explicit (`Outcome.panic`), the run stays fuelled (`Outcome.diverges`); that neither
happens is a theorem (`Proofs/MultiSet.lean`).

No imports (links into the driver).
-/
namespace Compass

structure MultiSet (α : Type) where
  /-- `sets: &Vec<Vec<T>>` -/
  sets : List (List α)
  /-- `pos: Option<Vec<usize>>`; `none` once the last combination was handed out -/
  pos : Option (List Nat)
  /-- `final_pos: Vec<usize>` -/
  finalPos : List Nat
  deriving Repr

namespace MultiSet

/-- what a piece of Rust code can do besides returning a value -/
inductive Outcome (α : Type) where
  | ok (a : α)
  | panic (site : String)
  | diverges
  deriving Repr

/-- `MultiSet::from`: `final_pos = len.saturating_sub(1)`; no position at all when some set is empty -/
def «from» {α : Type} (sets : List (List α)) : MultiSet α :=
  { sets := sets
    pos := if sets.any List.isEmpty then none else some (List.replicate sets.length 0)
    finalPos := sets.map (fun v => v.length - 1) }

/-- `for r in next_pos.iter_mut().take(n) { *r = 0 }` -/
def zeroPrefix : Nat → List Nat → List Nat
  | 0, l => l
  | _ + 1, [] => []
  | n + 1, _ :: r => 0 :: zeroPrefix n r

/-- The carry loop `for idx in 0..len { … }`, started at `idx` with `k = len - idx` iterations left.
Returns `(next_pos, finished)`; `none` is an index out of bounds (`next_pos[idx]`, `final_pos[idx]`).
Running off the end of the range (only possible when `len = 0`) leaves `finished` at its initial value
`finished0` (`self.sets.is_empty()`). -/
def carry (finalPos : List Nat) (len : Nat) (finished0 : Bool) :
    Nat → Nat → List Nat → Option (List Nat × Bool)
  | 0, _, pos => some (pos, finished0)
  | k + 1, idx, pos =>
    match pos[idx]?, finalPos[idx]? with
    | some p, some f =>
      if p < f then some (pos.set idx (p + 1), false)
      else if idx = len - 1 then some (pos, true)
      else carry finalPos len finished0 k (idx + 1) (zeroPrefix (idx + 1) pos)
    | _, _ => none

/-- `position.iter().zip(0..sets.len()).map(|(j, i)| sets[i][*j]).collect()`, started at set `i`;
`none` is an index out of bounds -/
def pickFrom {α : Type} (sets : List (List α)) : Nat → List Nat → Option (List α)
  | _, [] => some []
  | i, j :: r =>
    match sets[i]? with
    | none => some []   -- `zip(0..len)` stops at the shorter side
    | some s =>
      match s[j]? with
      | none => none
      | some x =>
        match pickFrom sets (i + 1) r with
        | some xs => some (x :: xs)
        | none => none

/-- `Iterator::next`: the item (if any) and the iterator afterwards -/
def next {α : Type} (ms : MultiSet α) : Outcome (Option (List α) × MultiSet α) :=
  match ms.pos with
  | none => .ok (none, ms)
  | some position =>
    match pickFrom ms.sets 0 position with
    | none => .panic "multiset/sets-index"
    | some result =>
      match carry ms.finalPos ms.sets.length ms.sets.isEmpty ms.sets.length 0 position with
      | none => .panic "multiset/pos-index"
      | some (nextPos, finished) =>
        .ok (some result, { ms with pos := if finished then none else some nextPos })

/-- `ms.into_iter().map(f).collect()` as a fuelled unfold; `f` itself may panic -/
def collectMap {α β : Type} (f : List α → Outcome β) : Nat → MultiSet α → Outcome (List β)
  | 0, _ => .diverges
  | fuel + 1, ms =>
    match next ms with
    | .ok (none, _) => .ok []
    | .ok (some x, ms') =>
      match f x with
      | .ok y =>
        match collectMap f fuel ms' with
        | .ok ys => .ok (y :: ys)
        | .panic s => .panic s
        | .diverges => .diverges
      | .panic s => .panic s
      | .diverges => .diverges
    | .panic s => .panic s
    | .diverges => .diverges

/-- at most `k` calls of `next`: the items handed out and whether the iterator ended (`None`) -/
def takeN {α : Type} : Nat → MultiSet α → Outcome (List (List α) × Bool)
  | 0, _ => .ok ([], false)
  | k + 1, ms =>
    match next ms with
    | .ok (none, _) => .ok ([], true)
    | .ok (some x, ms') =>
      match takeN k ms' with
      | .ok (xs, e) => .ok (x :: xs, e)
      | .panic s => .panic s
      | .diverges => .diverges
    | .panic s => .panic s
    | .diverges => .diverges

/-- `ms.into_iter().collect()` -/
def collect {α : Type} (fuel : Nat) (ms : MultiSet α) : Outcome (List (List α)) :=
  collectMap .ok fuel ms

/-! ### Closed form of the enumeration (what the iterator computes when it is defined) -/

/-- `Π nᵢ` -/
def prod : List Nat → Nat
  | [] => 1
  | n :: ns => n * prod ns

/-- little-endian mixed-radix digits of `k` for the radices `ns` -/
def digits : List Nat → Nat → List Nat
  | [], _ => []
  | n :: ns, k => k % n :: digits ns (k / n)

/-- mixed-radix value `Σ posᵢ · Π_{j<i} nⱼ` of a digit vector (first digit least significant) -/
def val : List Nat → List Nat → Nat
  | n :: ns, p :: ps => p + n * val ns ps
  | _, _ => 0

/-- `p` is an index vector for the sizes `ns`: same length and `pᵢ < nᵢ` -/
def inRange : List Nat → List Nat → Bool
  | [], [] => true
  | n :: ns, p :: ps => decide (p < n) && inRange ns ps
  | _, _ => false

/-- every index combination, in the order of the iterator: the `k`-th one is the digit vector of `k`
(the first axis runs fastest) -/
def combos (ns : List Nat) : List (List Nat) :=
  (List.range (prod ns)).map (digits ns)

/-- fuel that suffices for the sets of these sizes: one `next` per combination and the final `None` -/
def fuelFor (ns : List Nat) : Nat := prod ns + 1

/-- total selection `sets[i][posᵢ]` (entries out of range are dropped) -/
def pick {α : Type} : List (List α) → List Nat → List α
  | s :: ss, j :: r =>
    match s[j]? with
    | some x => x :: pick ss r
    | none => pick ss r
  | _, _ => []

/-- `collect` with the fuel that suffices -/
def toList {α : Type} (sets : List (List α)) : Outcome (List (List α)) :=
  collect (fuelFor (sets.map List.length)) (MultiSet.from sets)

end MultiSet
end Compass
