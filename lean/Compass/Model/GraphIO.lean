/-
Model of the hand-written decoding and configuration code around the graph loader.

Rust: `routee-compass-core/src/model/network/vertex.rs` (the `Deserialize` visitor of `Vertex`),
`edge.rs` (`Edge::default`), `routee-compass/src/app/compass/config/graph_builder.rs`
(`DefaultGraphBuilder::build`) with the `ConfigJsonExtensions` getters it uses.

Text-to-number parsing (`str::parse::<usize>()`, `str::parse::<f32>()`), `Path::is_file` and
`serde_json::from_value` at `usize` / `bool` are the standard library's / serde's: a cell carries its
parse results, a path its `is_file` answer, as data.

Imports only other Model files (links into the driver executable).
-/
import Compass.Model.Num
import Compass.Model.Json
import Compass.Model.Graph

namespace Compass

/-- `Edge::default()` -/
def Edge.default {α : Type} [Lit α] : Edge α := { edgeId := 0, src := 0, dst := 1, distance := one }

/-! ### the `Vertex` visitor (`visit_map`) -/

/-- a csv cell / a JSON string value, with what the standard parsers make of it -/
structure Cell (α : Type) where
  asUsize : Option Nat
  asF32 : Option α
  deriving Repr, Inhabited

inductive VisitErr where
  /-- `map.next_entry::<&str, &str>()?` failed (a JSON value that is not a string) -/
  | entry
  | parseId
  | parseX
  | parseY
  /-- the entries ran out before `vertex_id`, `x` and `y` were all seen -/
  | incomplete
  /-- the deserializer did not offer a map (`expecting`) -/
  | notMap
  /-- the format insists that a map is consumed to its end (serde_json), and it was not -/
  | trailing
  deriving Repr, DecidableEq, Inhabited

structure VisitState (α : Type) where
  id : Option Nat := none
  x : Option α := none
  y : Option α := none

/-- `vertex_id_result.zip(x_result).zip(y_result)` -/
def VisitState.complete? {α : Type} (st : VisitState α) : Option (Vertex α) :=
  match st.id, st.x, st.y with
  | some i, some x, some y => some { vertexId := i, x := x, y := y }
  | _, _, _ => none

/-- one turn of the `while next.is_some()` loop: match the key, store the parsed value -/
def visitStore {α : Type} (st : VisitState α) (key : String) (c : Cell α) : Except VisitErr (VisitState α) :=
  if key = "vertex_id" then
    match c.asUsize with
    | none => .error .parseId
    | some i => .ok { st with id := some i }
  else if key = "x" then
    match c.asF32 with
    | none => .error .parseX
    | some v => .ok { st with x := some v }
  else if key = "y" then
    match c.asF32 with
    | none => .error .parseY
    | some v => .ok { st with y := some v }
  else .ok st   -- unknown keys are ignored

/-- the loop: entries in the order the map yields them (`none` = an entry that cannot be read as a pair
of strings); stops as soon as all three values are there and returns the entries it did not look at -/
def visitEntries {α : Type} : List (Option (String × Cell α)) → VisitState α →
    Except VisitErr (Vertex α × List (Option (String × Cell α)))
  | [], _ => .error .incomplete
  | none :: _, _ => .error .entry
  | some (k, c) :: rest, st =>
    match visitStore st k c with
    | .error e => .error e
    | .ok st' =>
      match st'.complete? with
      | some v => .ok (v, rest)
      | none => visitEntries rest st'

/-- `Vertex::deserialize` on what the deserializer offers: a map (csv record with headers, JSON object)
or something else; `strictEnd`: the format rejects a map that was not consumed to its end -/
def decodeVertex {α : Type} (input : Option (List (Option (String × Cell α)))) (strictEnd : Bool) :
    Except VisitErr (Vertex α) :=
  match input with
  | none => .error .notMap
  | some entries =>
    match visitEntries entries {} with
    | .error e => .error e
    | .ok (v, rest) => if strictEnd && !rest.isEmpty then .error .trailing else .ok v

/-- one record of the vertex file through the decoder, as the csv reader sees it (`Row.bad` = the
record does not decode); composes the decoder with the loader's `CsvFile.rows` -/
def decodeVertexRow {α : Type} (entries : List (String × Cell α)) : Row (Vertex α) :=
  match decodeVertex (some (entries.map some)) false with
  | .ok v => .ok v
  | .error _ => .bad

/-! ### `DefaultGraphBuilder::build` -/

inductive CfgErr where
  /-- `ExpectedFieldForComponent(key, parent)` -/
  | expectedField (key parent : String)
  /-- `ExpectedFieldWithType(key, type)` -/
  | expectedType (key ty : String)
  /-- `FileNotFoundForComponent(path, key, parent)` -/
  | fileNotFound (path key parent : String)
  /-- `SerdeDeserializationError` -/
  | serde
  /-- `GraphError(NetworkError)` -/
  | graph (e : LoadErr)
  deriving Repr, DecidableEq, Inhabited

/-- `get_config_string` -/
def getConfigString (params : Json) (key parent : String) : Except CfgErr String :=
  match params.get? key with
  | none => .error (.expectedField key parent)
  | some v =>
    match v.asStr? with
    | none => .error (.expectedType key "String")
    | some s => .ok s

/-- `get_config_path`; `isFile` answers `Path::is_file` for the configured string -/
def getConfigPath (params : Json) (key parent : String) (isFile : Bool) : Except CfgErr String :=
  match getConfigString params key parent with
  | .error e => .error e
  | .ok s => if isFile then .ok s else .error (.fileNotFound s key parent)

/-- `get_config_serde_optional::<usize>` -/
def getConfigOptUsize (params : Json) (key : String) : Except CfgErr (Option Nat) :=
  match params.get? key with
  | none => .ok none
  | some v =>
    match v.asU64? with
    | none => .error .serde
    | some n => .ok (some n)

/-- `get_config_serde_optional::<bool>` -/
def getConfigOptBool (params : Json) (key : String) : Except CfgErr (Option Bool) :=
  match params.get? key with
  | none => .ok none
  | some v =>
    match v.asBool? with
    | none => .error .serde
    | some b => .ok (some b)

/-- `DefaultGraphBuilder::build(params)`.  `eIsFile` / `vIsFile`: `Path::is_file` of the two configured
paths; `ef` / `vf`: the files found there.  `verbose` only switches two log lines. -/
def graphBuilderBuild {α : Type} (params : Json) (eIsFile vIsFile : Bool)
    (ef : CsvFile (Edge α)) (vf : CsvFile (Vertex α)) : Except CfgErr (Graph α) :=
  match getConfigPath params "edge_list_input_file" "graph" eIsFile with
  | .error e => .error e
  | .ok _ =>
    match getConfigPath params "vertex_list_input_file" "graph" vIsFile with
    | .error e => .error e
    | .ok _ =>
      match getConfigOptUsize params "n_edges" with
      | .error e => .error e
      | .ok nE =>
        match getConfigOptUsize params "n_vertices" with
        | .error e => .error e
        | .ok nV =>
          match getConfigOptBool params "verbose" with
          | .error e => .error e
          | .ok _verbose =>
            match graphFromFiles ef vf nE nV with
            | .error e => .error (.graph e)
            | .ok g => .ok g

end Compass
