/-
Unit conversion and the three derived-quantity constructors of
`routee-compass-core/src/model/unit/builders.rs`, over the generated tables of `Gen/Units.lean`.
-/
import Compass.Gen.Units

namespace Compass

section
variable {α : Type} [Mul α] [Div α] [Lit α]

/-- `DistanceUnit::convert(self = u, value = x, target = v)` -/
def DistanceUnit.convert (u v : DistanceUnit) (x : α) : α := (DistanceUnit.factor u v).apply x
def TimeUnit.convert (u v : TimeUnit) (x : α) : α := (TimeUnit.factor u v).apply x
def SpeedUnit.convert (u v : SpeedUnit) (x : α) : α := (SpeedUnit.factor u v).apply x
def EnergyUnit.convert (u v : EnergyUnit) (x : α) : α := (EnergyUnit.factor u v).apply x
def GradeUnit.convert (u v : GradeUnit) (x : α) : α := (GradeUnit.factor u v).apply x
def WeightUnit.convert (u v : WeightUnit) (x : α) : α := (WeightUnit.factor u v).apply x

variable [LE α] [DecidableLE α]

/-- `builders::create_time`; `none` is `UnitError::TimeFromSpeedAndDistanceError` -/
def createTime (speed : α) (su : SpeedUnit) (distance : α) (du : DistanceUnit) (tu : TimeUnit) : Option α :=
  let d := du.convert baseDistanceUnit distance
  let s := su.convert baseSpeedUnit speed
  if s ≤ (zero : α) ∨ d ≤ (zero : α) then none
  else some (baseTimeUnit.convert tu (d / s))

/-- `builders::create_speed`; `none` is `UnitError::SpeedFromTimeAndDistanceError` -/
def createSpeed (time : α) (tu : TimeUnit) (distance : α) (du : DistanceUnit) (su : SpeedUnit) : Option α :=
  let d := du.convert baseDistanceUnit distance
  let t := tu.convert baseTimeUnit time
  if t ≤ (zero : α) then none
  else some (baseSpeedUnit.convert su (d / t))

/-- `builders::create_energy` (always `Ok`) -/
def createEnergy (rate : α) (ru : EnergyRateUnit) (distance : α) (du : DistanceUnit) : α × EnergyUnit :=
  let cd := du.convert ru.associatedDistanceUnit distance
  (rate * cd, ru.associatedEnergyUnit)

end

/-! ### the rest of `speed_unit.rs` -/

/-- `SpeedUnit::from((distance_unit, time_unit))`: the unit, or the panic of an arm that is `todo!()` -/
inductive FromPair where
  | unit (u : SpeedUnit)
  | panic
  deriving DecidableEq, Repr, Inhabited

def SpeedUnit.fromPair (d : DistanceUnit) (t : TimeUnit) : FromPair :=
  match SpeedUnit.ofDistanceTime? d t with
  | some u => .unit u
  | none => .panic

/-! ### `from_str` = `string_deserialize`: the text is put between quotes and read as a JSON string

What serde_json's string reader does with the characters between the quotes: a raw quote ends the string
early (what follows — at least the quote that was appended — is then trailing input: an error), a raw
control character is an error, a backslash starts an escape: one of `" \ / b f n r t`, or `uXXXX` with
four hex digits (either case).  A `\u` escape in the surrogate range is either an error (alone) or half
of a pair that decodes to a character beyond the basic plane; the model answers `none` for both — no
serde name holds such a character, so the answer of `from_str` is the same. -/

def hexDigit? (c : Char) : Option Nat :=
  if '0' ≤ c ∧ c ≤ '9' then some (c.toNat - '0'.toNat)
  else if 'a' ≤ c ∧ c ≤ 'f' then some (c.toNat - 'a'.toNat + 10)
  else if 'A' ≤ c ∧ c ≤ 'F' then some (c.toNat - 'A'.toNat + 10)
  else none

/-- the characters a JSON string body stands for, `none` when it is not a JSON string body -/
def jsonUnescape : List Char → Option (List Char)
  | [] => some []
  | '\\' :: rest =>
    match rest with
    | [] => none
    | 'u' :: a :: b :: c :: d :: rest' =>
      match hexDigit? a, hexDigit? b, hexDigit? c, hexDigit? d with
      | some x, some y, some z, some w =>
        let n := ((x * 16 + y) * 16 + z) * 16 + w
        if 0xD800 ≤ n ∧ n ≤ 0xDFFF then none
        else (jsonUnescape rest').map (Char.ofNat n :: ·)
      | _, _, _, _ => none
    | e :: rest' =>
      let plain : Option Char :=
        if e == '"' then some '"' else if e == '\\' then some '\\' else if e == '/' then some '/'
        else if e == 'b' then some (Char.ofNat 8) else if e == 'f' then some (Char.ofNat 12)
        else if e == 'n' then some '\n' else if e == 'r' then some '\r' else if e == 't' then some '\t'
        else none
      match plain with
      | some ch => (jsonUnescape rest').map (ch :: ·)
      | none => none
  | c :: rest =>
    if c == '"' || c.toNat < 32 then none else (jsonUnescape rest).map (c :: ·)

/-- `from_str` of a unit family: the JSON string the text stands for must be a serde name -/
def unitFromStr {β : Type} (ofName? : String → Option β) (s : String) : Option β :=
  match jsonUnescape s.toList with
  | some cs => ofName? (String.ofList cs)
  | none => none

/-- `SpeedUnit::from_str` -/
def SpeedUnit.fromStr (s : String) : Option SpeedUnit := unitFromStr SpeedUnit.ofName? s

/-- `SpeedUnit::max_american_highway_speed` -/
def SpeedUnit.maxHighwaySpeed {α : Type} [Lit α] (u : SpeedUnit) : α :=
  Lit.lit u.maxAmericanHighwaySpeed.1 u.maxAmericanHighwaySpeed.2

end Compass
