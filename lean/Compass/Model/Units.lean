/-
Unit conversion and the three derived-quantity constructors of
`routee-compass-core/src/model/unit/builders.rs`, over the generated tables of `Gen/Units.lean`.
-/
import Compass.Gen.Units

namespace Compass

section
variable {α : Type} [Mul α] [Div α] [Lit α]

/-- `DistanceUnit::convert(self = u, value = x, target = v)` -/
def DistanceUnit.convert (u v : DistanceUnit) (x : α) : α := (DistanceUnit.factor u v).apply x
def TimeUnit.convert (u v : TimeUnit) (x : α) : α := (TimeUnit.factor u v).apply x
def SpeedUnit.convert (u v : SpeedUnit) (x : α) : α := (SpeedUnit.factor u v).apply x
def EnergyUnit.convert (u v : EnergyUnit) (x : α) : α := (EnergyUnit.factor u v).apply x
def GradeUnit.convert (u v : GradeUnit) (x : α) : α := (GradeUnit.factor u v).apply x
def WeightUnit.convert (u v : WeightUnit) (x : α) : α := (WeightUnit.factor u v).apply x

variable [LE α] [DecidableLE α]

/-- `builders::create_time`; `none` is `UnitError::TimeFromSpeedAndDistanceError` -/
def createTime (speed : α) (su : SpeedUnit) (distance : α) (du : DistanceUnit) (tu : TimeUnit) : Option α :=
  let d := du.convert baseDistanceUnit distance
  let s := su.convert baseSpeedUnit speed
  if s ≤ (zero : α) ∨ d ≤ (zero : α) then none
  else some (baseTimeUnit.convert tu (d / s))

/-- `builders::create_speed`; `none` is `UnitError::SpeedFromTimeAndDistanceError` -/
def createSpeed (time : α) (tu : TimeUnit) (distance : α) (du : DistanceUnit) (su : SpeedUnit) : Option α :=
  let d := du.convert baseDistanceUnit distance
  let t := tu.convert baseTimeUnit time
  if t ≤ (zero : α) then none
  else some (baseSpeedUnit.convert su (d / t))

/-- `builders::create_energy` (always `Ok`) -/
def createEnergy (rate : α) (ru : EnergyRateUnit) (distance : α) (du : DistanceUnit) : α × EnergyUnit :=
  let cd := du.convert ru.associatedDistanceUnit distance
  (rate * cd, ru.associatedEnergyUnit)

end

/-! ### the rest of `speed_unit.rs` -/

/-- `SpeedUnit::from((distance_unit, time_unit))`: the unit, or the panic of an arm that is `todo!()` -/
inductive FromPair where
  | unit (u : SpeedUnit)
  | panic
  deriving DecidableEq, Repr, Inhabited

def SpeedUnit.fromPair (d : DistanceUnit) (t : TimeUnit) : FromPair :=
  match SpeedUnit.ofDistanceTime? d t with
  | some u => .unit u
  | none => .panic

/-- `SpeedUnit::from_str` (`string_deserialize`: the text is put between quotes and read as a JSON
string): a serde name.  A text holding a quote or a control character is not a JSON string; a
backslash starts an escape sequence, which is not modelled (answered `none`; the harness sends none). -/
def SpeedUnit.fromStr (s : String) : Option SpeedUnit :=
  if s.toList.any (fun c => c == '"' || c == '\\' || c.toNat < 32) then none else SpeedUnit.ofName? s

/-- `from_str` of the other unit families: the same `string_deserialize` -/
def unitFromStr {β : Type} (ofName? : String → Option β) (s : String) : Option β :=
  if s.toList.any (fun c => c == '"' || c == '\\' || c.toNat < 32) then none else ofName? s

/-- `SpeedUnit::max_american_highway_speed` -/
def SpeedUnit.maxHighwaySpeed {α : Type} [Lit α] (u : SpeedUnit) : α :=
  Lit.lit u.maxAmericanHighwaySpeed.1 u.maxAmericanHighwaySpeed.2

end Compass
