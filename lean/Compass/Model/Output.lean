/-
Model of the output side of routee-compass (C20):

* `plugin/output/default/traversal/traversal_output_format.rs` — `TraversalOutputFormat::generate_route_output`,
  `generate_tree_output` (the five formats `wkt | wkb | json | geo_json | edge_id`);
* `plugin/output/default/traversal/traversal_ops.rs` — `create_route_linestring`, `create_route_geojson`,
  `create_geojson_feature`, `create_edge_geometry`, `create_branch_geometry`,
  `create_tree_multilinestring`, `create_tree_geojson`, `create_tree_multipoint`;
* `routee-compass-core/src/util/geo/geo_io_utils.rs` — `concat_linestrings` (a plain `flat_map` over the
  points: a joint point shared by two consecutive edges is **kept twice**, nothing is dropped);
* `plugin/output/default/traversal/plugin.rs` — `TraversalPlugin::process`, `construct_route_output`;
* `plugin/output/default/uuid/{plugin.rs,output_json_extensions.rs}` — `UUIDOutputPlugin::process`,
  `get_od_vertex_ids`;
* `plugin/output/default/summary/plugin.rs` — the two counts `route_edges`, `tree_size_count`;
* `app/compass/compass_app.rs::apply_output_processing` + `output_plugin_ops.rs` — first plugin error turns the
  whole response into `{"request": …, "error": …}`.

Conventions.  Costs, state variables and coordinates are *opaque payloads*: they are carried as the bit
patterns of the `f64` / `f32` values and never computed with.  `RouteOut.records` and `Feature.props` hold the
traversals as they are handed to `serde`; how a payload then appears is `EdgeTraversal.rendered`: a finite value
bit for bit, a NaN or an infinity as `null` (a search does not produce such costs — C07 — but the output formats
accept any route).  The geometry table is `Nat → Option Line`
(`geoms.get(edge_id.0)` on a boxed slice: `none` = row absent).  A tree is a
`HashMap<VertexId, SearchTreeBranch>`; its iteration order is unspecified, so it is modelled as an
association list and every tree output is produced in the order of that list — the theorems state the result
up to permutation, the correspondence check sorts both sides.
Errors are the variants of `OutputPluginError` that can arise (never the message text).

Modelling boundary (stated, not hidden): `construct_route_output` also serialises the last edge's state and
cost through the `StateModel` / `CostModel` of the search instance (`traversal_summary`, `cost`, …).  Those
values do not touch the `path` and are not modelled; their one failure mode (last state vector shorter than the
slots the cost model reads) is modelled through `SearchResult.costSlots`.
Text-level parsing (the WKT grammar of the `wkt` crate, gzip, line splitting) is third-party: a file is modelled
as the list of its rows, each row already classified as "parses to this linestring" or "rejected".
Output serialisation is third-party as well and NOT in this model, with one exception: `RouteOut.wkt` carries the
point list handed to `wkt_string()`, `Feature` the values handed to the `geojson` crate, the records the values
handed to `serde`; what those crates print (number formatting included) is only compared by the harness after
parsing it back.  The exception is WKB: the first-party hex encoder `geometry_to_wkb_string` is modelled on top of
a transcription of `wkb::geom_to_wkb` v0.7.1 (byte layout, `f32 → f64` widening), so `RouteOut.wkb` also carries
the exact string, which the harness compares textually.

No imports beyond other Model files (linked into the driver).
-/
import Compass.Model.Json

namespace Compass
namespace Output

/-- a coordinate pair: bit patterns of `x` and `y` (opaque) -/
structure Point where
  x : Nat
  y : Nat
  deriving DecidableEq, Repr, Inhabited

/-- `LineString<f32>`: any number of points (0 and 1 are representable and not rejected anywhere) -/
abbrev Line := List Point

/-- `EdgeTraversal { edge_id, access_cost, traversal_cost, result_state }` (costs/state as bit patterns) -/
structure EdgeTraversal where
  edge : Nat
  access : Nat
  traversal : Nat
  state : List Nat
  deriving DecidableEq, Repr, Inhabited

/-- `SearchTreeBranch { terminal_vertex, edge_traversal }` -/
structure Branch where
  terminal : Nat
  et : EdgeTraversal
  deriving DecidableEq, Repr, Inhabited

/-- geometry lookup table: `geoms.get(edge_id.0)` -/
abbrev Geoms := Nat → Option Line

/-- the table read from the geometry file: row `i` is the geometry of edge `i` -/
def tableOf (rows : List Line) : Geoms := fun i => rows[i]?

/-- `TraversalOutputFormat` -/
inductive Fmt where
  | wkt | wkb | json | geoJson | edgeId
  deriving DecidableEq, Repr, Inhabited

/-- the `OutputPluginError` variants that the modelled code can produce -/
inductive Err where
  /-- `OutputPluginFailed(_)` -/
  | failed
  /-- `MissingExpectedQueryField(field)` -/
  | missingField (field : String)
  /-- `QueryFieldHasInvalidType(field, _)` -/
  | invalidType (field : String)
  /-- not a plugin error: the search itself failed (`CompassAppError`), packaged by `create_initial_output` -/
  | search
  /-- `BuildFailed(_)`: a lookup-table file could not be read or holds a row that does not parse -/
  | build
  /-- `std::io::Error` of the readers and row parsers of `geo_io_utils` / `read_utils` -/
  | io
  deriving DecidableEq, Repr, Inhabited

/-- outcome of a call that may panic -/
inductive Outcome (α : Type) where
  | ok (a : α)
  | err (e : Err)
  /-- `serde_json` index-assignment on a value that is neither an object nor `null`; `panic!()` /
  `unimplemented!()` inside the `wkb` crate -/
  | panic
  deriving Repr, Inhabited

/-- a GeoJSON `Feature { id, properties, geometry }` -/
structure Feature where
  id : Nat
  props : EdgeTraversal
  geom : Line
  deriving DecidableEq, Repr, Inhabited

/-! ### traversal_ops -/

/-- `ids.iter().map(|eid| geoms.get(eid.0).ok_or_else(..)).collect::<Result<Vec<_>, _>>()` -/
def lookupAll (g : Geoms) : List Nat → Except Err (List Line)
  | [] => .ok []
  | e :: r =>
    match g e with
    | none => .error .failed
    | some l =>
      match lookupAll g r with
      | .error x => .error x
      | .ok ls => .ok (l :: ls)

/-- `geo_io_utils::concat_linestrings`: `linestrings.iter().flat_map(|ls| ls.points()).collect()` —
every point of every linestring, in order; joint points are not de-duplicated -/
def concatLinestrings (ls : List Line) : Line := ls.flatten

/-- `traversal_ops::create_edge_geometry` (and `create_branch_geometry`, which forwards to it) -/
def createEdgeGeometry (g : Geoms) (t : EdgeTraversal) : Except Err Line :=
  match g t.edge with
  | none => .error .failed
  | some l => .ok l

def createBranchGeometry (g : Geoms) (b : Branch) : Except Err Line := createEdgeGeometry g b.et

/-- `traversal_ops::create_route_linestring` -/
def createRouteLinestring (g : Geoms) (route : List EdgeTraversal) : Except Err Line :=
  match lookupAll g (route.map (·.edge)) with
  | .error x => .error x
  | .ok ls => .ok (concatLinestrings ls)

/-- `traversal_ops::create_geojson_feature`: `serde_json::to_value(t)` of the struct is always an object, so
neither error arm is reachable; id = the edge id, properties = the whole traversal record -/
def createGeojsonFeature (t : EdgeTraversal) (l : Line) : Feature := { id := t.edge, props := t, geom := l }

/-- the `features` vector of `create_route_geojson` / `create_tree_geojson` -/
def featuresOf (g : Geoms) : List EdgeTraversal → Except Err (List Feature)
  | [] => .ok []
  | t :: r =>
    match g t.edge with
    | none => .error .failed
    | some l =>
      match featuresOf g r with
      | .error x => .error x
      | .ok fs => .ok (createGeojsonFeature t l :: fs)

/-- a tree as the hash map iterates it: `(vertex key, branch)` in some order, keys distinct -/
abbrev Tree := List (Nat × Branch)

/-- `tree.values()` -/
def Tree.values (t : Tree) : List Branch := t.map (·.2)

/-- `traversal_ops::create_tree_multilinestring`: one linestring per branch, *not* concatenated -/
def createTreeMultilinestring (g : Geoms) (t : Tree) : Except Err (List Line) :=
  lookupAll g (t.values.map (·.et.edge))

/-- `traversal_ops::create_tree_multipoint` (not reachable from any output format; kept because it is public):
the last point of every branch geometry; an empty linestring is an error -/
def createTreeMultipoint (g : Geoms) : List Nat → Except Err (List Point)
  | [] => .ok []
  | e :: r =>
    match g e with
    | none => .error .failed
    | some l =>
      match l.getLast? with
      | none => .error .failed
      | some p =>
        match createTreeMultipoint g r with
        | .error x => .error x
        | .ok ps => .ok (p :: ps)

/-! ### WKB text (`traversal_output_format::geometry_to_wkb_string`) -/

/-- `n.to_le_bytes()` of a `k`-byte unsigned integer -/
def leBytes : Nat → Nat → List Nat
  | 0, _ => []
  | k + 1, n => n % 256 :: leBytes k (n / 256)

/-- `f32 as f64` (`Into<f64>`) on bit patterns: exact widening of zeros, subnormals, normal numbers and
infinities; a NaN keeps sign and payload (shifted) and comes out *quiet* (bit 51 set), as the conversion
instruction does — `0x7F800001` (signalling) widens to `0x7FF8000020000000`.
Where non-finite coordinates can come from: since the repair of `parse_wkt_linestring` (it used to accept `+NaN`,
`-inf`, `1e39`, …) a table read from a file holds finite coordinates only; a table handed to the output formats in
memory (`generate_route_output(&route, &geoms)`) may hold anything.  For such a table only the WKB text is
modelled; `wkt_string()` then prints `NaN` / `inf` (text the loader rejects) and the GeoJSON writer prints `null`,
both outside this model. -/
def widenF32 (b : Nat) : Nat :=
  let sign := (b / 2 ^ 31) % 2
  let e := (b / 2 ^ 23) % 256
  let m := b % 2 ^ 23
  if e == 255 then
    -- m = 0: infinity; otherwise NaN, quieted: m < 2²³, so m·2²⁹ has bit 51 set exactly when m ≥ 2²²
    let frac := if m == 0 then 0 else if m < 2 ^ 22 then m * 2 ^ 29 + 2 ^ 51 else m * 2 ^ 29
    sign * 2 ^ 63 + 2047 * 2 ^ 52 + frac
  else if e == 0 then
    if m == 0 then sign * 2 ^ 63
    else
      -- subnormal `m · 2⁻¹⁴⁹`: normalise on the highest set bit `k`
      let k := Nat.log2 m
      sign * 2 ^ 63 + (k + 874) * 2 ^ 52 + (m - 2 ^ k) * 2 ^ (52 - k)
  else sign * 2 ^ 63 + (e + 896) * 2 ^ 52 + m * 2 ^ 29

/-- `wkb::write_many_points` (third party, v0.7.1): `u32` count, then `x`, `y` as little-endian doubles -/
def wkbPoints (l : Line) : List Nat :=
  leBytes 4 l.length ++ l.flatMap fun p => leBytes 8 (widenF32 p.x) ++ leBytes 8 (widenF32 p.y)

/-- `wkb::geom_to_wkb(&Geometry::LineString(_))`: byte-order mark 1, type 2, the points -/
def wkbLineString (l : Line) : List Nat := 1 :: (leBytes 4 2 ++ wkbPoints l)

/-- `wkb::geom_to_wkb(&Geometry::MultiLineString(_))`: mark 1, type 5, member count, every member as a
complete linestring record -/
def wkbMultiLineString (ls : List Line) : List Nat :=
  1 :: (leBytes 4 5 ++ leBytes 4 ls.length ++ ls.flatMap wkbLineString)

/-- the two geometries the output formats hand to `wkb::geom_to_wkb` -/
inductive WkbGeom where
  | lineString (l : Line)
  | multiLineString (ls : List Line)

/-- `wkb::geom_to_wkb` (third party): fails only for `Rect` / `Triangle` geometries and on a failing writer,
neither of which the output formats can produce (they write (Multi)LineStrings into a `Vec`) -/
def geomToWkb : WkbGeom → Except Unit (List Nat)
  | .lineString l => .ok (wkbLineString l)
  | .multiLineString ls => .ok (wkbMultiLineString ls)

/-- `{:02X?}` of one byte -/
def hexUpperDigit (n : Nat) : Char := if n < 10 then Char.ofNat (48 + n) else Char.ofNat (55 + n)

def hexChars : List Nat → List Char
  | [] => []
  | b :: r => hexUpperDigit (b / 16) :: hexUpperDigit (b % 16) :: hexChars r

/-- `geometry_to_wkb_string` (first party): the bytes of `geom_to_wkb`, each as two upper-case hex digits, joined;
a write error becomes `OutputPluginFailed` -/
def geometryToWkbString (geom : WkbGeom) : Except Err String :=
  match geomToWkb geom with
  | .error _ => .error .failed
  | .ok bytes => .ok (String.ofList (hexChars bytes))

/-! ### TraversalOutputFormat -/

/-- what `generate_route_output` returns, one constructor per format -/
inductive RouteOut where
  /-- `edge_id`: JSON array of the ids -/
  | edgeIds (ids : List Nat)
  /-- `json`: JSON array of the serialised `EdgeTraversal`s -/
  | records (rs : List EdgeTraversal)
  /-- `geo_json`: a `FeatureCollection` -/
  | features (fs : List Feature)
  /-- `wkt`: a `LINESTRING` -/
  | wkt (line : Line)
  /-- `wkb`: `hex` is the string stored in the response (`geometry_to_wkb_string`); `line` is the linestring that
  was handed to the encoder (kept so that the theorems can speak about the geometry without decoding) -/
  | wkb (line : Line) (hex : String)
  deriving DecidableEq, Repr, Inhabited

def generateRouteOutput (g : Geoms) (fmt : Fmt) (route : List EdgeTraversal) : Except Err RouteOut :=
  match fmt with
  | .wkt =>
    match createRouteLinestring g route with
    | .error x => .error x
    | .ok l => .ok (.wkt l)
  | .wkb =>
    match createRouteLinestring g route with
    | .error x => .error x
    | .ok l =>
      match geometryToWkbString (.lineString l) with
      | .error x => .error x
      | .ok s => .ok (.wkb l s)
  | .json => .ok (.records route)
  | .geoJson =>
    match featuresOf g route with
    | .error x => .error x
    | .ok fs => .ok (.features fs)
  | .edgeId => .ok (.edgeIds (route.map (·.edge)))

/-- what `generate_tree_output` returns -/
inductive TreeOut where
  | edgeIds (ids : List Nat)
  /-- `json`: the serialised `SearchTreeBranch`es (the map's keys are not part of the output) -/
  | records (bs : List Branch)
  | features (fs : List Feature)
  /-- `wkt`: a `MULTILINESTRING` -/
  | wkt (lines : List Line)
  /-- `wkb`: `hex` is the stored string, `lines` what was handed to the encoder -/
  | wkb (lines : List Line) (hex : String)
  deriving DecidableEq, Repr, Inhabited

def generateTreeOutput (g : Geoms) (fmt : Fmt) (t : Tree) : Except Err TreeOut :=
  match fmt with
  | .wkt =>
    match createTreeMultilinestring g t with
    | .error x => .error x
    | .ok ls => .ok (.wkt ls)
  | .wkb =>
    match createTreeMultilinestring g t with
    | .error x => .error x
    | .ok ls =>
      match geometryToWkbString (.multiLineString ls) with
      | .error x => .error x
      | .ok s => .ok (.wkb ls s)
  | .json => .ok (.records t.values)
  | .geoJson =>
    match featuresOf g (t.values.map (·.et)) with
    | .error x => .error x
    | .ok fs => .ok (.features fs)
  | .edgeId => .ok (.edgeIds (t.values.map (·.et.edge)))

/-! ### how a payload appears in the JSON records and GeoJSON properties -/

/-- an `f64` bit pattern denotes a finite number -/
def f64IsFinite (bits : Nat) : Bool := (bits / 2 ^ 52) % 2048 != 2047

/-- `serde_json::to_value` of a cost or state variable: a finite value becomes a JSON number that reads back to
the same bits (negative zero and subnormals included); NaN and the infinities become `null` (`none`) -/
def renderF64 (bits : Nat) : Option Nat := if f64IsFinite bits then some bits else none

/-- an `EdgeTraversal` as the `json` records and the GeoJSON `properties` show it -/
structure RenderedRecord where
  edge : Nat
  access : Option Nat
  traversal : Option Nat
  state : List (Option Nat)
  deriving DecidableEq, Repr, Inhabited

def EdgeTraversal.rendered (t : EdgeTraversal) : RenderedRecord :=
  { edge := t.edge, access := renderF64 t.access, traversal := renderF64 t.traversal,
    state := t.state.map renderF64 }

/-! ### observations on outputs (used by the theorems and by the driver) -/

/-- the edge sequence an output shows, when the format shows one -/
def RouteOut.edgeSeq? : RouteOut → Option (List Nat)
  | .edgeIds ids => some ids
  | .records rs => some (rs.map (·.edge))
  | .features fs => some (fs.map (·.id))
  | .wkt _ => none
  | .wkb _ _ => none

/-- the route geometry an output shows, when the format shows one -/
def RouteOut.geometry? : RouteOut → Option Line
  | .edgeIds _ => none
  | .records _ => none
  | .features fs => some (fs.map (·.geom)).flatten
  | .wkt l => some l
  | .wkb l _ => some l

/-- number of entries of a tree output -/
def TreeOut.size : TreeOut → Nat
  | .edgeIds ids => ids.length
  | .records bs => bs.length
  | .features fs => fs.length
  | .wkt ls => ls.length
  | .wkb ls _ => ls.length

def TreeOut.edgeSeq? : TreeOut → Option (List Nat)
  | .edgeIds ids => some ids
  | .records bs => some (bs.map (·.et.edge))
  | .features fs => some (fs.map (·.id))
  | .wkt _ => none
  | .wkb _ _ => none

def TreeOut.lines? : TreeOut → Option (List Line)
  | .edgeIds _ => none
  | .records _ => none
  | .features fs => some (fs.map (·.geom))
  | .wkt ls => some ls
  | .wkb ls _ => some ls

/-! ### TraversalPlugin::process -/

/-- the value stored at the `route` / `tree` key: `null` for no result, the bare object for exactly one, an
array otherwise -/
inductive Shape (α : Type) where
  | null
  | one (a : α)
  | many (as : List α)
  deriving DecidableEq, Repr, Inhabited

def shape {α : Type} : List α → Shape α
  | [] => .null
  | [a] => .one a
  | as => .many as

def Shape.toList {α : Type} : Shape α → List α
  | .null => []
  | .one a => [a]
  | .many as => as

/-- `iter().map(f).collect::<Result<Vec<_>, _>>()` -/
def mapExcept {α β : Type} (f : α → Except Err β) : List α → Except Err (List β)
  | [] => .ok []
  | a :: r =>
    match f a with
    | .error x => .error x
    | .ok b =>
      match mapExcept f r with
      | .error x => .error x
      | .ok bs => .ok (b :: bs)

/-- `plugin::construct_route_output`, the `path` member: an empty route is an error
("cannot find result route state when route is empty"); every error is re-wrapped as `OutputPluginFailed` -/
def constructRouteOutput (slots : Nat) (g : Geoms) (fmt : Fmt) (route : List EdgeTraversal) : Except Err RouteOut :=
  match route.getLast? with
  | none => .error .failed
  | some last =>
    match generateRouteOutput g fmt route with
    | .error _ => .error .failed
    | .ok o =>
      -- `cost_model.serialize_cost(&last_edge.result_state)`: `StateIndexOutOfBounds` when the last state is
      -- shorter than the highest slot the cost model reads (never the case for a state produced by a search)
      if last.state.length < slots then .error .failed else .ok o

/-- `SearchAppResult`, the parts the output plugins read -/
structure SearchResult where
  routes : List (List EdgeTraversal)
  trees : List Tree
  /-- of the accompanying `SearchInstance`: number of state slots its cost model reads when serialising a cost
  (highest feature index + 1; 0 = none) -/
  costSlots : Nat := 0
  deriving Repr, Inhabited

/-- configuration of a `TraversalPlugin` -/
structure TraversalCfg where
  geoms : Geoms
  route : Option Fmt
  tree : Option Fmt

/-- the response under construction, as far as the three default plugins write it -/
structure Resp where
  route : Option (Shape RouteOut) := none
  tree : Option (Shape TreeOut) := none
  routeEdges : Option Nat := none
  treeSizeCount : Option Nat := none
  originUuid : Option String := none
  destinationUuid : Option String := none
  deriving DecidableEq, Repr, Inhabited

/-- `TraversalPlugin::process` on a successful search: the route key is written before the trees are
rendered, but an error in either discards the whole response (see `applyOutputProcessing`) -/
def traversalProcess (cfg : TraversalCfg) (res : SearchResult) (r : Resp) : Except Err Resp :=
  let afterRoute : Except Err Resp :=
    match cfg.route with
    | none => .ok r
    | some fmt =>
      match mapExcept (constructRouteOutput res.costSlots cfg.geoms fmt) res.routes with
      | .error _ => .error .failed
      | .ok outs => .ok { r with route := some (shape outs) }
  match afterRoute with
  | .error x => .error x
  | .ok r1 =>
    match cfg.tree with
    | none => .ok r1
    | some fmt =>
      match mapExcept (generateTreeOutput cfg.geoms fmt) res.trees with
      | .error x => .error x
      | .ok outs => .ok { r1 with tree := some (shape outs) }

/-! ### SummaryOutputPlugin (the two counts) -/

def routeEdgesCount (res : SearchResult) : Nat := (res.routes.map List.length).sum
def treeSizeCount (res : SearchResult) : Nat := (res.trees.map List.length).sum

def summaryProcess (res : SearchResult) (r : Resp) : Resp :=
  { r with routeEdges := some (routeEdgesCount res), treeSizeCount := some (treeSizeCount res) }

/-! ### UUIDOutputPlugin -/

/-- the identifier table: `uuids.get(vertex_id.0)` -/
abbrev Uuids := Nat → Option String

def uuidTableOf (rows : List String) : Uuids := fun i => rows[i]?

/-- `UUIDJsonExtensions::get_od_vertex_ids` on the output JSON -/
def getOdVertexIds (output : Json) : Except Err (Nat × Nat) :=
  match output.get? "request" with
  | none => .error (.missingField "request")
  | some rq =>
    match rq.asObject? with
    | none => .error (.invalidType "request")
    | some kvs =>
      match Json.lookup kvs "origin_vertex" with
      | none => .error (.missingField "origin_vertex")
      | some ov =>
        match ov.asU64? with
        | none => .error (.invalidType "origin_vertex")
        | some o =>
          match Json.lookup kvs "destination_vertex" with
          | none => .error (.missingField "destination_vertex")
          | some dv =>
            match dv.asU64? with
            | none => .error (.invalidType "destination_vertex")
            | some d => .ok (o, d)

/-- the two table lookups of `UUIDOutputPlugin::process` (origin first) -/
def uuidLookup (u : Uuids) (output : Json) : Except Err (String × String) :=
  match getOdVertexIds output with
  | .error x => .error x
  | .ok (o, d) =>
    match u o with
    | none => .error .failed
    | some ou =>
      match u d with
      | none => .error .failed
      | some du => .ok (ou, du)

/-- `UUIDOutputPlugin::process(output, search_result)`; `searchOk = false` is the `Err(_) => Ok(())` arm -/
def uuidProcess (u : Uuids) (searchOk : Bool) (output : Json) : Outcome Json :=
  if !searchOk then .ok output
  else
    match uuidLookup u output with
    | .error x => .err x
    | .ok (ou, du) =>
      match output.indexAssign "origin_vertex_uuid" (.str ou) with
      | none => .panic
      | some o1 =>
        match o1.indexAssign "destination_vertex_uuid" (.str du) with
        | none => .panic
        | some o2 => .ok o2

/-! ### loading the lookup tables (`TraversalPlugin::from_file`, `read_linestring_text_file`,
`UUIDOutputPlugin::from_file`, `read_utils::read_raw_file`) -/

/-- a row of the geometry file after the (third-party) WKT parser: the linestring it denotes, or `none` when
`LineString::try_from_wkt_str` rejects it (blank line, other geometry type, quoted / CSV-prefixed text, …) -/
abbrev GeomRow := Option Line

/-- a lookup-table file as the loaders see it -/
structure TableFile (α : Type) where
  /-- `File::open` succeeds -/
  readable : Bool
  /-- `Path::is_file()` — what `get_config_path` of the builders tests.  A file can exist without opening (no
  read permission): the builder then gets as far as `from_file`, whose `BuildFailed` it wraps as `PluginError`,
  instead of reporting `FileNotFoundForComponent` -/
  isFile : Bool := readable
  /-- the byte stream decodes to the end (a truncated gzip member does not) -/
  intact : Bool
  rows : List α

/-- `read_raw_file(file, parse_wkt_linestring, _)`: every row in order, the first rejected row aborts the load —
a bad row is never skipped, so rows never shift against edge ids -/
def parseRows : List GeomRow → Except Err (List Line)
  | [] => .ok []
  | none :: _ => .error .io
  | some l :: r =>
    match parseRows r with
    | .error x => .error x
    | .ok ls => .ok (l :: ls)

/-- `geo_io_utils::read_linestring_text_file` -/
def readLinestringTextFile (f : TableFile GeomRow) : Except Err (List Line) :=
  if !f.readable then .error .io
  else
    match parseRows f.rows with
    | .error x => .error x
    | .ok ls => if f.intact then .ok ls else .error .io

/-- `TraversalPlugin::from_file`: the same reader, every failure re-wrapped as `BuildFailed` -/
def traversalFromFile (f : TableFile GeomRow) (route tree : Option Fmt) : Except Err TraversalCfg :=
  match readLinestringTextFile f with
  | .error _ => .error .build
  | .ok ls => .ok { geoms := tableOf ls, route := route, tree := tree }

/-- `UUIDOutputPlugin::from_file`: rows are taken verbatim (`|_idx, row| Ok(row)`) -/
def uuidFromFile (f : TableFile String) : Except Err Uuids :=
  if !f.readable || !f.intact then .error .build else .ok (uuidTableOf f.rows)

/-- what `geo_io_utils::parse_wkb_linestring` meets in `wkb::wkb_to_geom` (third party, v0.7.1) when it hands it
the **raw bytes of the text row** (`row.as_bytes()`, no hex decoding) -/
inductive WkbRow where
  /-- first byte 1, type 2, complete: a linestring; coordinates already narrowed `f64 → f32` -/
  | linestring (l : Line)
  /-- first byte 1, a complete geometry of another known type -/
  | other
  /-- the bytes end early (`WKBReadError::IOError`) -/
  | truncated
  /-- first byte 0 (`WKBReadError::UnsupportedBigEndian`) -/
  | bigEndian
  /-- first byte neither 0 nor 1 — every hex-encoded WKB text starts with `'0'` = 0x30: `panic!()` -/
  | badByteOrder
  /-- geometry type outside 1..7: `unimplemented!()` -/
  | unknownType
  deriving Repr, Inhabited

/-- `geo_io_utils::parse_wkb_linestring` (public, not called from anywhere in the workspace) -/
def parseWkbLinestring : WkbRow → Outcome Line
  | .linestring l => .ok l
  | .other => .err .io
  | .truncated => .err .io
  | .bigEndian => .err .io
  | .badByteOrder => .panic
  | .unknownType => .panic

/-! ### the configuration builders (`TraversalPluginBuilder::build`, `UUIDOutputPluginBuilder::build`) -/

/-- serde names of `TraversalOutputFormat` (`rename_all = "snake_case"`) -/
def Fmt.name : Fmt → String
  | .wkt => "wkt" | .wkb => "wkb" | .json => "json" | .geoJson => "geo_json" | .edgeId => "edge_id"

def Fmt.all : List Fmt := [.wkt, .wkb, .json, .geoJson, .edgeId]

def Fmt.ofName? (s : String) : Option Fmt := Fmt.all.find? fun f => f.name == s

/-- `CompassConfigurationError` variants the two builders can produce -/
inductive BuildErr where
  /-- `ExpectedFieldForComponent` -/
  | expectedField
  /-- `ExpectedFieldWithType` -/
  | fieldType
  /-- `FileNotFoundForComponent` -/
  | fileNotFound
  /-- `SerdeDeserializationError` -/
  | serde
  /-- `PluginError(OutputPluginFailed { BuildFailed })` -/
  | plugin
  deriving DecidableEq, Repr, Inhabited

/-- the `*_input_file` parameter -/
inductive FileParam (α : Type) where
  | absent
  | notString
  /-- a string that is not the path of a file -/
  | noSuchFile
  | file (f : TableFile α)

/-- a variant name as serde resolves it: one of the five names, anything else is an "unknown variant" error -/
def fmtOfName (s : String) : Except BuildErr (Option Fmt) :=
  match Fmt.ofName? s with
  | some f => .ok (some f)
  | none => .error .serde

/-- `get_config_serde_optional::<TraversalOutputFormat>` = `serde_json::from_value` on a derived, externally
tagged enum of unit variants: an absent key is `None`; a present value must be one of the five names **as a
string, or as the single-key object `{"<name>": null}`** (serde's map form of a unit variant; only JSON
configuration or a direct `build(&Value)` call can write it, TOML has no `null`).  JSON `null`, numbers, arrays,
objects with no or several keys, a non-`null` member and unknown names are deserialisation errors. -/
def fmtParam (v : Option Json) : Except BuildErr (Option Fmt) :=
  match v with
  | none => .ok none
  | some (.str s) => fmtOfName s
  | some (.obj [(k, .null)]) => fmtOfName k
  | some _ => .error .serde

def filePath {α : Type} : FileParam α → Except BuildErr (TableFile α)
  | .absent => .error .expectedField
  | .notString => .error .fieldType
  | .noSuchFile => .error .fileNotFound
  -- `get_config_path` insists on `path.is_file()`
  | .file f => if f.isFile then .ok f else .error .fileNotFound

/-- `TraversalPluginBuilder::build`: file parameter, then `route`, then `tree`, then the load -/
def buildTraversal (file : FileParam GeomRow) (route tree : Option Json) : Except BuildErr TraversalCfg :=
  match filePath file with
  | .error e => .error e
  | .ok f =>
    match fmtParam route with
    | .error e => .error e
    | .ok r =>
      match fmtParam tree with
      | .error e => .error e
      | .ok t =>
        match traversalFromFile f r t with
        | .error _ => .error .plugin
        | .ok cfg => .ok cfg

/-- `UUIDOutputPluginBuilder::build` -/
def buildUuid (file : FileParam String) : Except BuildErr Uuids :=
  match filePath file with
  | .error e => .error e
  | .ok f =>
    match uuidFromFile f with
    | .error _ => .error .plugin
    | .ok u => .ok u

/-! ### the plugins' `process` on a raw JSON output (direct calls; `apply_output_processing` only ever hands
them a JSON object and never calls them after a failed search) -/

/-- `TraversalPlugin::process(output, result)`.  `res = none` is the `Err(_) => Ok(())` arm (output untouched,
reported as `.ok none`).  `assignable` says whether `output[key] = …` can succeed (`output` is an object or
`null`); the order of effects is the code's: render routes, assign `route`, render trees, assign `tree`. -/
def traversalProcessOn (cfg : TraversalCfg) (res : Option SearchResult) (assignable : Bool) : Outcome (Option Resp) :=
  match res with
  | none => .ok none
  | some sr =>
    let afterRoute : Outcome Resp :=
      match cfg.route with
      | none => .ok {}
      | some fmt =>
        match mapExcept (constructRouteOutput sr.costSlots cfg.geoms fmt) sr.routes with
        | .error _ => .err .failed
        | .ok outs => if assignable then .ok { route := some (shape outs) } else .panic
    match afterRoute with
    | .err x => .err x
    | .panic => .panic
    | .ok r1 =>
      match cfg.tree with
      | none => .ok (some r1)
      | some fmt =>
        match mapExcept (generateTreeOutput cfg.geoms fmt) sr.trees with
        | .error x => .err x
        | .ok outs => if assignable then .ok (some { r1 with tree := some (shape outs) }) else .panic

/-- what the summary plugin reads from the `SearchAppResult` besides routes and trees (strings are opaque: the
timestamp and the `hhmmss` text of the runtime) -/
structure SummaryInput where
  executedTime : String
  runtime : String
  iterations : Nat

/-- JSON number of an unsigned integer (`json![n]`); the `f64` view is not used by this model -/
def jnat (n : Nat) : Json := .num (toString n) 0

/-- sequential `output[key] = value` -/
def assignAll : Json → List (String × Json) → Option Json
  | j, [] => some j
  | j, (k, v) :: r =>
    match j.indexAssign k v with
    | none => none
    | some j1 => assignAll j1 r

/-- `SummaryOutputPlugin::process` on a raw JSON output; the memory size is not modelled (`null` placeholder) -/
def summaryProcessOn (res : Option (SearchResult × SummaryInput)) (output : Json) : Outcome Json :=
  match res with
  | none => .ok output
  | some (sr, si) =>
    match assignAll output [
        ("search_executed_time", .str si.executedTime),
        ("search_runtime", .str si.runtime),
        ("route_edges", jnat (routeEdgesCount sr)),
        ("tree_size_count", jnat (treeSizeCount sr)),
        ("search_result_size_mib", .null),
        ("iterations", jnat si.iterations)] with
    | none => .panic
    | some j => .ok j

/-- replace the value stored under `k` (the key exists) -/
def replaceKv (kvs : List (String × Json)) (k : String) (v : Json) : List (String × Json) :=
  kvs.map fun p => if p.1 == k then (k, v) else p

/-- `UUIDJsonExtensions::add_od_uuids` (public, not used by the plugin): writes the two identifiers *into the
request object* -/
def addOdUuids (output : Json) (ou du : String) : Except Err Json :=
  match output with
  | .obj kvs =>
    match Json.lookup kvs "request" with
    | none => .error (.missingField "request")
    | some (.obj rq) =>
      .ok (.obj (replaceKv kvs "request"
        (.obj (Json.insertKv (Json.insertKv rq "origin_vertex_uuid" (.str ou)) "destination_vertex_uuid" (.str du)))))
    | some _ => .error (.invalidType "request")
  | _ => .error (.missingField "request")

/-- `TraversalJsonExtensions::get_route_geometry_wkt` (traversal/json_extensions.rs; public, used by no caller):
expects a *string* under `route` — the plugin itself stores an object with a `path` member there -/
def getRouteGeometryWkt (output : Json) : Except Err String :=
  match output.get? "route" with
  | none => .error (.missingField "route")
  | some (.str s) => .ok s
  | some _ => .error (.invalidType "route")

/-- the JSON field names of `UUIDJsonField` and `TraversalJsonField`, in declaration order -/
def fieldNames : List String :=
  ["request", "origin_vertex", "destination_vertex", "origin_vertex_uuid", "destination_vertex_uuid", "route", "tree"]

/-! ### apply_output_processing -/

inductive Plugin where
  | traversal (cfg : TraversalCfg)
  | summary
  | uuid (table : Uuids)

/-- one plugin step on a successful search; `req` is the request JSON stored under `"request"` in the output
(no default plugin modifies that key, so the uuid plugin reads the original request) -/
def pluginStep (req : Json) (res : SearchResult) (p : Plugin) (r : Resp) : Except Err Resp :=
  match p with
  | .traversal cfg => traversalProcess cfg res r
  | .summary => .ok (summaryProcess res r)
  | .uuid table =>
    match uuidLookup table (.obj [("request", req)]) with
    | .error x => .error x
    | .ok (ou, du) => .ok { r with originUuid := some ou, destinationUuid := some du }

def runPlugins (req : Json) (res : SearchResult) : List Plugin → Resp → Except Err Resp
  | [], r => .ok r
  | p :: ps, r =>
    match pluginStep req res p r with
    | .error x => .error x
    | .ok r1 => runPlugins req res ps r1

/-- `apply_output_processing`: `.error` is the response `{"request": …, "error": …}` (no `route`, no `tree`);
`res = none` is a failed search (`create_initial_output` already returns the error response) -/
def applyOutputProcessing (req : Json) (res : Option SearchResult) (plugins : List Plugin) : Except Err Resp :=
  match res with
  | none => .error .search
  | some sr => runPlugins req sr plugins {}

end Output
end Compass
