-- root of the `Compass` library: executable model (import-free), generated tables, proofs, properties
import Compass.Model.Num
import Compass.Model.Units
import Compass.Gen.Units
import Compass.Gen.Consts
