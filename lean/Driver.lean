import Compass.Drv.C09
import Compass.Drv.Search
import Compass.Drv.C15
import Compass.Drv.C07
import Compass.Drv.C11
import Compass.Drv.C18
import Compass.Drv.C20
import Compass.Drv.C16
import Compass.Drv.C08
import Compass.Drv.C14
import Compass.Drv.C17
import Compass.Drv.C19
import Compass.Drv.C13
import Compass.Drv.C06
import Compass.Drv.Build

/-- `driver <prop>`: reads one case per line on stdin, prints the model's canonical output line -/
partial def loop (h : IO.FS.Stream) (out : IO.FS.Stream) (f : String → String) : IO Unit := do
  let line ← h.getLine
  if line.isEmpty then return ()
  -- every case line is `<index> <case…>`; the index is echoed so the streams can be joined
  let l := line.trimAscii.toString
  match l.splitOn " " with
  | idx :: rest => out.putStrLn (idx ++ " " ++ f (" ".intercalate rest))
  | [] => out.putStrLn "bad-line"
  loop h out f

/-- the search properties C01 C03 C04 C10 carry a k-shortest-paths stream (harness/src/c13.rs
`run_prop_stream`): a case line whose first token is `ksp` is a C13 case; and a stream of direct
calls of the application's builders and query parsers (harness/src/appbuild.rs): first token `bld`.  (The dispatch lives here
rather than in `Drv/Search.lean` because `Drv/C13.lean` imports that file for its case parser.) -/
def searchOrKsp (line : String) : String :=
  match line.trimAscii.toString.splitOn " " with
  | "ksp" :: rest => Compass.Drv.C13.run (" ".intercalate rest)
  | "bld" :: rest => Compass.Drv.Build.run (" ".intercalate rest)
  | _ => Compass.Drv.Search.run line

def dispatch : String → Option (String → String)
  | "C09" => some Compass.Drv.C09.run
  | "C01" => some searchOrKsp
  | "C02" => some searchOrKsp
  | "C03" => some searchOrKsp
  | "C04" => some searchOrKsp
  | "C05" => some Compass.Drv.Search.run
  | "C10" => some searchOrKsp
  | "C15" => some Compass.Drv.C15.run
  | "C07" => some Compass.Drv.C07.run
  | "C11" => some Compass.Drv.C11.run
  | "C18" => some Compass.Drv.C18.run
  | "C20" => some Compass.Drv.C20.run
  | "C16" => some Compass.Drv.C16.run
  | "C08" => some Compass.Drv.C08.run
  | "C14" => some Compass.Drv.C14.run
  | "C17" => some Compass.Drv.C17.run
  | "C19" => some Compass.Drv.C19.run
  | "C13" => some Compass.Drv.C13.run
  | "C06" => some Compass.Drv.C06.run
  | "C12" => some Compass.Drv.C06.run
  | _ => none

def main (args : List String) : IO UInt32 := do
  match args with
  | [p] =>
    match dispatch p with
    | some f =>
      let stdin ← IO.getStdin
      let stdout ← IO.getStdout
      loop stdin stdout f
      stdout.flush
      return 0
    | none => IO.eprintln s!"unknown property {p}"; return 2
  | _ => IO.eprintln "usage: driver <prop> < cases"; return 2
