import Compass.Drv.C09
import Compass.Drv.C19

/-- `driver <prop>`: reads one case per line on stdin, prints the model's canonical output line -/
partial def loop (h : IO.FS.Stream) (out : IO.FS.Stream) (f : String → String) : IO Unit := do
  let line ← h.getLine
  if line.isEmpty then return ()
  -- every case line is `<index> <case…>`; the index is echoed so the streams can be joined
  let l := line.trimAscii.toString
  match l.splitOn " " with
  | idx :: rest => out.putStrLn (idx ++ " " ++ f (" ".intercalate rest))
  | [] => out.putStrLn "bad-line"
  loop h out f

def dispatch : String → Option (String → String)
  | "C09" => some Compass.Drv.C09.run
  | "C19" => some Compass.Drv.C19.run
  | _ => none

def main (args : List String) : IO UInt32 := do
  match args with
  | [p] =>
    match dispatch p with
    | some f =>
      let stdin ← IO.getStdin
      let stdout ← IO.getStdout
      loop stdin stdout f
      stdout.flush
      return 0
    | none => IO.eprintln s!"unknown property {p}"; return 2
  | _ => IO.eprintln "usage: driver <prop> < cases"; return 2
