import Compass.Proofs.SearchRoute
open Compass

def exConfig : Config ℚ where
  nV := 4
  edges := [⟨0, 1, 1000⟩, ⟨1, 2, 2000⟩, ⟨2, 3, 500⟩, ⟨1, 1, 100⟩, ⟨3, 1, 700⟩, ⟨2, 2, 50⟩]
  outAdj := [[0], [1, 3], [2, 5], [4]]
  inAdj := [[], [0, 3, 4], [1, 5], [2]]
  feats := [{ name := "distance", kind := .dist .meters, init := 0 }]
  trav := .distance .meters
  access := .noAccess
  cost := { indices := [0], weights := [1], vehicleRates := [.raw], networkRates := [.zero], agg := .sum }
  frontier := []
  term := .iters 100
  reverse := false
  gc := [0, 0, 0, 0]
  wf := none

def routeEdgesOf (r : Except ErrKind (AlgResult ℚ)) : Option (List (List Nat)) :=
  match r with
  | .ok res => some (res.routes.map (·.map (·.edge)))
  | .error _ => none
def treeParentsOf (r : Except ErrKind (AlgResult ℚ)) (vs : List Nat) : Option (List (List (Option (Nat × Nat)))) :=
  match r with
  | .ok res => some (res.trees.map (fun t => vs.map (fun v => (t v).map (fun b => (b.terminal, b.edge)))))
  | .error _ => none

#eval routeEdgesOf ({exConfig with reverse := true}.runEdge 0 (some 2) [1, 3, 2])
#eval routeEdgesOf ({exConfig with reverse := true}.runEdge 0 (some 2) [1, 0, 3, 2])
#eval treeParentsOf (exConfig.runEdge 0 none [1, 2, 3]) [0,1,2,3]
#eval treeParentsOf (exConfig.runEdge 4 none [1, 2, 3]) [0,1,2,3]
#eval routeEdgesOf ({exConfig with reverse := true}.runEdge 0 (some 2) [1, 3, 0, 2])
