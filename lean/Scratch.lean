import Compass.Proofs.Num
theorem foo {β : Type} (l : List β) (i : Nat) : l[i]?.isSome = true ↔ i < l.length := by
  simp?
